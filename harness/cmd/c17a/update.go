package main

import (
	"fmt"
	"math/big"
	"reflect"

	"verif/harness/adapt/pokmpc"
)

// mpcsetup.UpdateProof (MMORPG, eprint 2017/1050, section 3.7 / algorithm 3):
//
//	contribution x != 0; commitment X = [x]G1; R = HashToG2(X || challenge, dst); pok = [x]R
//	every representation A (in G1 or G2) is replaced by [x]A
//	verify: X, pok in the order-r subgroups; X != O;
//	        pok = x.R           (e(X, R) = e(G1, pok), R recomputed from X, challenge and dst);
//	        every G1 representation: next = x.prev   (checked against pok / R);
//	        every G2 representation: next = x.prev   (checked against X / G1).
//
// The forger knows x and the discrete logs of all representations.

type repSpec struct {
	kind string // g1p g2p g1s g2s
	n    int
}

func specName(cfg []repSpec) string {
	if len(cfg) == 0 {
		return "none"
	}
	s := ""
	for i, r := range cfg {
		if i > 0 {
			s += "+"
		}
		s += r.kind
		if r.kind[2] == 's' {
			s += fmt.Sprint(r.n)
		}
	}
	return s
}

// state: discrete logs of the representations
type repState [][]*big.Int

func (e *env) reprs(cfg []repSpec, st repState, valueKinds bool) []pokmpc.Repr {
	out := make([]pokmpc.Repr, len(cfg))
	for i, r := range cfg {
		kind := r.kind
		if valueKinds && kind[2] == 'p' {
			kind = kind[:2] + "v"
		}
		if r.kind[1] == '1' {
			out[i] = pokmpc.Repr{Kind: kind, Pts: e.P1s(st[i])}
		} else {
			out[i] = pokmpc.Repr{Kind: kind, Pts: e.P2s(st[i])}
		}
	}
	return out
}

func scaleState(e *env, st repState, f func(i, j int) *big.Int) repState {
	out := make(repState, len(st))
	for i := range st {
		out[i] = make([]*big.Int, len(st[i]))
		for j := range st[i] {
			out[i][j] = e.mul(st[i][j], f(i, j))
		}
	}
	return out
}

func (e *env) proofParts(proof any) (com, pok any) {
	return getPt(field(proof, "contributionCommitment")), getPt(field(proof, "contributionPok"))
}

func (e *env) makeProof(com, pok any) any {
	p := e.in.NewProof()
	setPt(field(p, "contributionCommitment"), com)
	setPt(field(p, "contributionPok"), pok)
	return p
}

// pokBase computes the documented challenge point R = Hash(commitment, challenge, dst) of the proof of knowledge.
// A forgery that replays a proof under another (challenge, dst) is only a forgery when R changes, and the proof of
// knowledge only means something when R is not the identity: both are properties of the hash to G2 and are
// reported under their own keys, so that a defect there cannot show up as seed-dependent accepted forgeries.
func (e *env) pokBase(com any, chal []byte, dst byte) (R any, usable bool) {
	op := e.L + "/mpcsetup/UpdateProof.Verify"
	var err error
	if e.c.Guard(op+"/pok-base/panic", func() string { return fmt.Sprintf("HashToG2(commitment || %x, dst=%d)", chal, dst) }, func() { R, err = e.in.PokBase(com, chal, dst) }) || err != nil {
		return nil, false
	}
	if e.in.Eq2(R, e.in.Inf2()) {
		e.c.Fail(op+"/pok-base/is-the-identity", "R = HashToG2(commitment || challenge=%x, {dst=%d}) is the point at infinity for commitment %s: pok = [x]R = O for every x, the proof of knowledge proves nothing", chal, dst, e.g1.Str(e.g1.FromLib(com)))
		return R, false
	}
	return R, true
}

// rebinds reports whether R really differs between two (challenge, dst) pairs for this commitment.
func (e *env) rebinds(com any, R any, chal []byte, dst byte, chal2 []byte, dst2 byte) bool {
	op := e.L + "/mpcsetup/UpdateProof.Verify"
	R2, ok := e.pokBase(com, chal2, dst2)
	if !ok {
		return false
	}
	if e.in.Eq2(R, R2) {
		e.c.Fail(op+"/pok-base/same-for-different-challenges", "HashToG2(commitment || challenge, {dst}) gives the same point for (challenge=%x, dst=%d) and (challenge=%x, dst=%d), commitment %s: a proof of knowledge made for one verifies under the other", chal, dst, chal2, dst2, e.g1.Str(e.g1.FromLib(com)))
		return false
	}
	return true
}

// pokBaseProbe: a fixed (seed-independent) list of challenges must give pairwise different, non-identity R.
func (e *env) pokBaseProbe() {
	op := e.L + "/mpcsetup/UpdateProof.Verify"
	n := e.c.Pick(256, 1024)
	seen := map[string]int{}
	nInf, nColl := 0, 0
	for i := 0; i < n; i++ {
		chal := []byte(fmt.Sprintf("c17a pok-base probe %d", i))
		var R any
		var err error
		if e.c.Guard(op+"/pok-base/panic", func() string { return fmt.Sprintf("HashToG2(G1 || %q, dst=0)", chal) }, func() { R, err = e.in.PokBase(e.in.Gen1, chal, 0) }) || err != nil {
			continue
		}
		e.c.Eval(op+"/pok-base", 1)
		if e.in.Eq2(R, e.in.Inf2()) {
			nInf++
			e.c.Fail(op+"/pok-base/is-the-identity", "R = HashToG2(Marshal(G1 generator) || %q, {0}) is the point at infinity (%d-th of the fixed probe list): pok = [x]R = O for every x", chal, i)
			continue
		}
		k := e.g2.Str(e.g2.FromLib(R))
		if j, dup := seen[k]; dup {
			nColl++
			e.c.Fail(op+"/pok-base/same-for-different-challenges", "HashToG2(Marshal(G1 generator) || challenge, {0}) gives the same point for the probe challenges #%d and #%d (%q): a proof of knowledge made for one challenge verifies under the other", j, i, chal)
			continue
		}
		seen[k] = i
	}
	e.c.Class(op + "/pok-base/probe")
	e.c.Extra("pok_base_probe/"+e.in.Name, map[string]int{"challenges": n, "identity": nInf, "collisions": nColl})
}

func (e *env) updateProofs() {
	e.pokBaseProbe()
	c := e.c
	pkg := e.L + "/mpcsetup"
	op := pkg + "/UpdateProof.Verify"
	cfgs := [][]repSpec{
		{},
		{{"g1p", 1}},
		{{"g2p", 1}},
		{{"g1p", 1}, {"g2p", 1}},
		{{"g1s", 1}},
		{{"g1s", 3}},
		{{"g2s", 2}},
		{{"g1s", 4}, {"g2s", 3}, {"g1p", 1}, {"g2p", 1}},
		{{"g1p", 1}, {"g1p", 1}, {"g1s", 2}},
		{{"g2p", 1}, {"g2s", 5}},
	}
	if c.Thorough() {
		cfgs = append(cfgs, []repSpec{{"g1s", 33}, {"g2s", 17}}, []repSpec{{"g1s", 100}}, []repSpec{{"g2s", 64}, {"g1p", 1}},
			[]repSpec{{"g1s", 7}, {"g1s", 9}, {"g2s", 7}, {"g2s", 2}}, []repSpec{{"g2p", 1}, {"g2p", 1}, {"g2p", 1}})
	}
	// the proof struct must consist of exactly the two documented components
	{
		p := e.in.NewProof()
		ls := leaves(p, reflect.TypeOf(e.in.Gen1).Elem(), reflect.TypeOf(e.in.Gen2).Elem())
		if len(ls) != 2 || ls[0].path != "contributionCommitment" || ls[0].kind != "g1" || ls[1].path != "contributionPok" || ls[1].kind != "g2" {
			c.Inconclusive("%s: UpdateProof has fields the monitor does not know: %v", pkg, ls)
			return
		}
	}
	one := big.NewInt(1)
	rm1 := new(big.Int).Sub(e.r, one)
	for ci, cfg := range cfgs {
		name := specName(cfg)
		xs := []struct {
			class string
			x     *big.Int
		}{{"random", e.scalar()}}
		if ci%3 == 1 || c.Thorough() {
			xs = append(xs, struct {
				class string
				x     *big.Int
			}{"r-1", rm1})
		}
		if ci%3 == 2 || c.Thorough() {
			xs = append(xs, struct {
				class string
				x     *big.Int
			}{"one", one}, struct {
				class string
				x     *big.Int
			}{"library-sampled", nil})
		}
		for xi, xc := range xs {
			chal := e.rng.Bytes([]int{32, 0, 1, 41, 9}[(ci+xi)%5])
			dst := []byte{0, 1, 255, 7}[(ci+2*xi)%4]
			prevS := make(repState, len(cfg))
			for i, r := range cfg {
				prevS[i] = e.scalars(r.n)
			}
			if len(cfg) >= 3 && xi == 0 {
				prevS[0][len(prevS[0])-1] = new(big.Int) // an identity element among the representations is admissible
			}
			prev := e.reprs(cfg, prevS, false)
			var proof any
			var upd []pokmpc.Repr
			var used *big.Int
			desc := func() string {
				xs := "library-sampled"
				if xc.x != nil {
					xs = xc.x.Text(16)
				}
				return fmt.Sprintf("representations %s, x=%s, challenge=%x dst=%d", name, xs, chal, dst)
			}
			if c.Guard(pkg+"/UpdateValues/panic", desc, func() { proof, upd, used = e.in.UpdateValues(xc.x, chal, dst, prev) }) {
				continue
			}
			com, pok := e.proofParts(proof)
			x := xc.x
			if x != nil {
				// prover output against the definition
				okc := e.in.Eq1(com, e.P1(x)) && used.Cmp(x) == 0
				c.Check("UpdateValues", pkg+"/UpdateValues/commitment-differs-from-definition", okc, func() string { return desc() + ": commitment != [x]G1 (or x overwritten)" })
				nextWant := e.reprs(cfg, scaleState(e, prevS, func(i, j int) *big.Int { return x }), false)
				same := true
				for i := range upd {
					for j := range upd[i].Pts {
						if cfg[i].kind[1] == '1' {
							same = same && e.in.Eq1(upd[i].Pts[j], nextWant[i].Pts[j])
						} else {
							same = same && e.in.Eq2(upd[i].Pts[j], nextWant[i].Pts[j])
						}
					}
				}
				c.Check("UpdateValues", pkg+"/UpdateValues/representation-differs-from-definition", same, func() string { return desc() + ": some updated representation != [x]previous" })
			}
			// honest: pointer kinds, value kinds, and after a WriteTo/ReadFrom round trip of the proof
			hk := fmt.Sprintf("reps-%s/x-%s", name, xc.class)
			e.honest(op, hk, desc, func() error { return e.in.ProofVerify(proof, chal, dst, prev, upd) })
			asVal := func(rs []pokmpc.Repr) []pokmpc.Repr {
				out := append([]pokmpc.Repr(nil), rs...)
				for i := range out {
					if out[i].Kind[2] == 'p' {
						out[i].Kind = out[i].Kind[:2] + "v"
					}
				}
				return out
			}
			if xi == 0 {
				e.honest(op, hk+"/passed-by-value", desc, func() error { return e.in.ProofVerify(proof, chal, dst, asVal(prev), asVal(upd)) })
				var back any
				var err error
				if !c.Guard(pkg+"/UpdateProof.ReadFrom/panic", desc, func() {
					var b []byte
					if b, err = e.in.ProofWrite(proof); err == nil {
						back, err = e.in.ProofRead(b)
					}
				}) && c.Check("UpdateProof.WriteTo", pkg+"/UpdateProof.WriteTo/round-trip-error", err == nil, func() string { return desc() + fmt.Sprint(" err=", err) }) {
					e.honest(op, hk+"/proof-after-WriteTo-ReadFrom", desc, func() error { return e.in.ProofVerify(back, chal, dst, prev, upd) })
				}
			}
			R, usable := e.pokBase(com, chal, dst)
			if !usable {
				c.Class(op + "/skipped/pok-base-unusable")
				continue
			}
			// ---- single-field substitutions of the proof struct (reflection), for every configuration ----
			y := e.other(x, one)
			var proofY any
			c.Guard(pkg+"/UpdateValues/panic", desc, func() { proofY, _, _ = e.in.UpdateValues(y, chal, dst, nil) })
			comY, pokY := e.proofParts(proofY)
			_, usableY := e.pokBase(comY, chal, dst)
			t1, t2 := reflect.TypeOf(e.in.Gen1).Elem(), reflect.TypeOf(e.in.Gen2).Elem()
			for li := range leaves(proof, t1, t2) {
				subs := map[string]any{}
				var ord []string
				add := func(k string, v any) { subs[k] = v; ord = append(ord, k) }
				l0 := leaves(proof, t1, t2)[li]
				if l0.kind == "g1" {
					add("identity", e.in.Inf1())
					add("random-point", e.P1(e.scalar()))
					add("from-another-honest-proof", comY)
					add("shifted-by-generator", oadd(e.g1, com, e.in.Gen1))
				} else {
					add("identity", e.in.Inf2())
					add("random-point", e.P2(e.scalar()))
					add("from-another-honest-proof", pokY)
					add("shifted-by-generator", oadd(e.g2, pok, e.in.Gen2))
				}
				for _, sk := range ord {
					if l0.kind == "g1" && sk != "identity" {
						if _, ok := e.pokBase(subs[sk], chal, dst); !ok {
							continue
						}
					}
					f := deepCopy(proof)
					setPt(leaves(f, t1, t2)[li].v, subs[sk])
					e.forged(op, fmt.Sprintf("substitution/%s:=%s", l0.path, sk), desc, func() error { return e.in.ProofVerify(f, chal, dst, prev, upd) })
				}
			}
			// a consistent proof of ANOTHER contribution (both fields) against these representations
			if len(cfg) > 0 && usableY {
				e.forged(op, "proof-of-another-contribution", desc, func() error { return e.in.ProofVerify(proofY, chal, dst, prev, upd) })
			}
			if x == nil || xi > 0 && !c.Thorough() {
				continue
			}
			// ---- targeted forgeries (x known) ----
			xinv := e.inv(x)
			honestS := scaleState(e, prevS, func(i, j int) *big.Int { return x })
			sameState := func(st repState) bool {
				for i := range st {
					for j := range st[i] {
						if st[i][j].Cmp(honestS[i][j]) != 0 {
							return false
						}
					}
				}
				return true
			}
			// stS: a forged next state from scalars; nil when it coincides with the honest one (statement still true)
			stS := func(st repState) []pokmpc.Repr {
				if sameState(st) {
					return nil
				}
				return e.reprs(cfg, st, false)
			}
			nextS := func(f func(i, j int) *big.Int) []pokmpc.Repr { return stS(scaleState(e, prevS, f)) }
			tf := func(kind string, pr any, ch []byte, d byte, nx []pokmpc.Repr, pv []pokmpc.Repr) {
				if nx == nil {
					return
				}
				e.forged(op, kind, func() string { return desc() + " forgery: " + kind }, func() error { return e.in.ProofVerify(pr, ch, d, pv, nx) })
			}
			// challenge / dst binding
			ch2 := append([]byte{0x5a}, chal...)
			var stale, otherDst any
			c.Guard(pkg+"/UpdateValues/panic", desc, func() {
				stale, _, _ = e.in.UpdateValues(x, ch2, dst, nil)
				otherDst, _, _ = e.in.UpdateValues(x, chal, dst+1, nil)
			})
			if e.rebinds(com, R, chal, dst, ch2, dst) {
				tf("pok-for-another-challenge", stale, chal, dst, upd, prev)
				tf("verified-under-another-challenge", proof, ch2, dst, upd, prev)
			}
			if e.rebinds(com, R, chal, dst, chal, dst+1) {
				tf("pok-for-another-dst", otherDst, chal, dst, upd, prev)
				tf("verified-under-another-dst", proof, chal, dst+1, upd, prev)
			}
			if len(chal) > 0 {
				ch3 := append([]byte(nil), chal...)
				ch3[len(ch3)-1] ^= 1
				if e.rebinds(com, R, chal, dst, ch3, dst) {
					tf("verified-under-challenge-with-one-bit-flipped", proof, ch3, dst, upd, prev)
				}
				if e.rebinds(com, R, chal, dst, chal[:len(chal)-1], dst) {
					tf("verified-under-truncated-challenge", proof, chal[:len(chal)-1], dst, upd, prev)
				}
			}
			// zero contribution: every ratio check holds trivially (0 = 0.anything); only the explicit refusal stops it
			zero := e.makeProof(e.in.Inf1(), e.in.Inf2())
			tf("zero-contribution-all-identity", zero, chal, dst, e.reprs(cfg, scaleState(e, prevS, func(i, j int) *big.Int { return new(big.Int) }), false), prev)
			// proof of knowledge alone violated: X = [x]G1 but pok = [y]R; G1 representations follow pok (y), G2 follow X (x)
			lam := e.mul(y, xinv)
			badPok := e.makeProof(com, e.in.Mul2(pok, lam))
			tf("pok-with-another-exponent-representations-consistent", badPok, chal, dst, e.reprs(cfg, scaleState(e, prevS, func(i, j int) *big.Int {
				if cfg[i].kind[1] == '1' {
					return y
				}
				return x
			}), false), prev)
			tf("pok-negated", e.makeProof(com, e.in.Mul2(pok, rm1)), chal, dst, upd, prev)
			// subgroup membership of the proof components
			if e.t1 != nil {
				tf("commitment-plus-cofactor-torsion", e.makeProof(oadd(e.g1, com, e.t1), pok), chal, dst, upd, prev)
				// the same with the proof of knowledge recomputed for the shifted commitment (R depends on it): every
				// pairing equation is unchanged by the torsion component, only the subgroup test can refuse it
				comT := oadd(e.g1, com, e.t1)
				if RT, ok := e.pokBase(comT, chal, dst); ok {
					tf("commitment-plus-cofactor-torsion-pok-recomputed", e.makeProof(comT, e.in.Mul2(RT, x)), chal, dst, upd, prev)
				}
			} else {
				c.Class(op + "/not-applicable/G1-cofactor-1")
			}
			if e.t2 != nil {
				tf("pok-plus-cofactor-torsion", e.makeProof(com, oadd(e.g2, pok, e.t2)), chal, dst, upd, prev)
			}
			tf("commitment-off-curve", e.makeProof(offCurve(e.g1, com), pok), chal, dst, upd, prev)
			tf("pok-off-curve", e.makeProof(com, offCurve(e.g2, pok)), chal, dst, upd, prev)
			// representations: one at a time not updated / updated by another factor / replaced
			for i, r := range cfg {
				grp := r.kind[:2]
				shape := "single"
				if r.kind[2] == 's' {
					shape = "slice"
				}
				js := []int{0}
				if r.n > 1 {
					js = append(js, r.n-1)
				}
				if r.n > 2 {
					js = append(js, r.n/2)
				}
				for _, j0 := range js {
					if prevS[i][j0].Sign() == 0 {
						continue // [x]O = O whatever x: nothing to forge on an identity element
					}
					at := func(v *big.Int) func(a, b int) *big.Int {
						return func(a, b int) *big.Int {
							if a == i && b == j0 {
								return v
							}
							return x
						}
					}
					pc := posClass(j0, r.n)
					if r.n == 1 {
						pc = "only"
					}
					if x.Cmp(one) != 0 {
						tf(fmt.Sprintf("representation-not-updated/%s-%s/%s", grp, shape, pc), proof, chal, dst, nextS(at(one)), prev)
					}
					tf(fmt.Sprintf("representation-updated-by-another-factor/%s-%s/%s", grp, shape, pc), proof, chal, dst, nextS(at(y)), prev)
					tf(fmt.Sprintf("representation-is-identity/%s-%s/%s", grp, shape, pc), proof, chal, dst, nextS(at(new(big.Int))), prev)
					tf(fmt.Sprintf("representation-negated/%s-%s/%s", grp, shape, pc), proof, chal, dst, nextS(at(e.neg(x))), prev)
					// shifted by the generator (not a multiple of prev)
					st := scaleState(e, prevS, func(a, b int) *big.Int { return x })
					st[i][j0] = e.add(st[i][j0], one)
					tf(fmt.Sprintf("representation-shifted-by-generator/%s-%s/%s", grp, shape, pc), proof, chal, dst, stS(st), prev)
				}
				// all elements of this representation updated by y (the others by x)
				tf(fmt.Sprintf("whole-representation-updated-by-another-factor/%s-%s", grp, shape), proof, chal, dst, nextS(func(a, b int) *big.Int {
					if a == i {
						return y
					}
					return x
				}), prev)
			}
			// all G1 by y with all G2 by x (only the G1 check fails) and the converse
			n1, n2 := 0, 0
			for _, r := range cfg {
				if r.kind[1] == '1' {
					n1++
				} else {
					n2++
				}
			}
			if n1 > 0 {
				tf("all-G1-representations-updated-by-another-factor", proof, chal, dst, nextS(func(a, b int) *big.Int {
					if cfg[a].kind[1] == '1' {
						return y
					}
					return x
				}), prev)
			}
			if n2 > 0 {
				tf("all-G2-representations-updated-by-another-factor", proof, chal, dst, nextS(func(a, b int) *big.Int {
					if cfg[a].kind[1] == '2' {
						return y
					}
					return x
				}), prev)
			}
			// two errors that cancel for equal combination weights: next_a = x.prev_a + d.G, next_b = x.prev_b - d.G
			for _, grp := range []byte{'1', '2'} {
				var where [][2]int
				for i, r := range cfg {
					for j := 0; j < r.n && r.kind[1] == grp; j++ {
						where = append(where, [2]int{i, j})
					}
				}
				if len(where) < 2 {
					continue
				}
				d := e.scalar()
				a, b := where[0], where[len(where)-1]
				st := scaleState(e, prevS, func(i, j int) *big.Int { return x })
				st[a[0]][a[1]] = e.add(st[a[0]][a[1]], d)
				st[b[0]][b[1]] = e.sub(st[b[0]][b[1]], d)
				tf(fmt.Sprintf("two-representations-shifted-by-opposite-amounts/g%c", grp), proof, chal, dst, stS(st), prev)
				// next values of two elements exchanged
				st = scaleState(e, prevS, func(i, j int) *big.Int { return x })
				if st[a[0]][a[1]].Cmp(st[b[0]][b[1]]) != 0 {
					st[a[0]][a[1]], st[b[0]][b[1]] = st[b[0]][b[1]], st[a[0]][a[1]]
					tf(fmt.Sprintf("two-updated-values-exchanged/g%c", grp), proof, chal, dst, stS(st), prev)
				}
			}
			// slice lengths
			for i, r := range cfg {
				if r.kind[2] != 's' {
					continue
				}
				nx := append([]pokmpc.Repr(nil), upd...)
				nx[i] = pokmpc.Repr{Kind: r.kind, Pts: upd[i].Pts[:r.n-1]}
				tf("next-slice-one-element-short/"+r.kind[:2], proof, chal, dst, nx, prev)
				nx = append([]pokmpc.Repr(nil), upd...)
				nx[i] = pokmpc.Repr{Kind: r.kind, Pts: append(append([]any(nil), upd[i].Pts...), upd[i].Pts[0])}
				tf("next-slice-one-element-long/"+r.kind[:2], proof, chal, dst, nx, prev)
			}
		}
	}
}

// ---------------- SameRatioMany ----------------
//
// Documented: "proves that all input slices are geometric sequences with the same ratio. All slices must be of
// length at least 2. There must be slices in each group. Caller must ensure that in one group there is a slice
// with a non-penultimate non-zero element and in the other a slice with a non-zero element."
// With known discrete logs a[i][j] (G1) and b[k][l] (G2) this is: a[i][j].b[k][l+1] = a[i][j+1].b[k][l] for all
// i, j, k, l. The workload keeps every first element non-zero (so the documented precondition holds).

func shapeClass(lens []int) string {
	if len(lens) == 1 {
		if lens[0] == 2 {
			return "one-slice-of-2"
		}
		return "one-slice"
	}
	all2 := true
	for _, l := range lens {
		all2 = all2 && l == 2
	}
	switch {
	case all2:
		return "several-slices-all-of-2"
	case lens[0] == 2:
		return "several-slices-first-of-2"
	}
	return "several-slices-first-longer"
}

func (e *env) sameRatio() {
	c := e.c
	op := e.L + "/mpcsetup/SameRatioMany"
	type shp struct{ l1, l2 []int }
	shapes := []shp{
		{[]int{2}, []int{2}}, {[]int{3}, []int{2}}, {[]int{2}, []int{3}}, {[]int{5}, []int{4}},
		{[]int{3, 3}, []int{2}}, {[]int{3, 2}, []int{2}}, {[]int{4}, []int{3, 2}}, {[]int{3, 4, 2}, []int{3, 5}}, {[]int{17}, []int{9}},
		{[]int{2, 3}, []int{2}}, {[]int{2, 2}, []int{2}}, {[]int{3}, []int{2, 2}}, {[]int{3}, []int{2, 4}}, {[]int{2, 2, 5}, []int{3}},
	}
	if c.Thorough() {
		shapes = append(shapes, shp{[]int{64}, []int{33}}, shp{[]int{100, 50, 3}, []int{65, 2}}, shp{[]int{2, 2, 2}, []int{2, 2}},
			shp{[]int{6, 7, 8, 9}, []int{2}}, shp{[]int{2}, []int{6, 7, 8, 9}}, shp{[]int{257}, []int{2}}, shp{[]int{3, 2, 2}, []int{4, 2, 2}},
			shp{[]int{2, 9}, []int{2, 9}}, shp{[]int{4, 4}, []int{4, 4}})
	}
	rounds := c.Pick(1, 3)
	rel := func(a, b [][]*big.Int) bool {
		for _, ai := range a {
			for j := 0; j+1 < len(ai); j++ {
				for _, bk := range b {
					for l := 0; l+1 < len(bk); l++ {
						if e.mul(ai[j], bk[l+1]).Cmp(e.mul(ai[j+1], bk[l])) != 0 {
							return false
						}
					}
				}
			}
		}
		return true
	}
	geo := func(start, ratio *big.Int, n int) []*big.Int {
		out := make([]*big.Int, n)
		cur := start
		for i := range out {
			out[i] = cur
			cur = e.mul(cur, ratio)
		}
		return out
	}
	cp2 := func(a [][]*big.Int) [][]*big.Int {
		out := make([][]*big.Int, len(a))
		for i := range a {
			out[i] = append([]*big.Int(nil), a[i]...)
		}
		return out
	}
	for si, sh := range shapes {
		sc := "g1:" + shapeClass(sh.l1) + ",g2:" + shapeClass(sh.l2)
		for round := 0; round < rounds; round++ {
			tau := e.scalar()
			a := make([][]*big.Int, len(sh.l1))
			b := make([][]*big.Int, len(sh.l2))
			for i, n := range sh.l1 {
				a[i] = geo(e.scalar(), tau, n)
			}
			for k, n := range sh.l2 {
				b[k] = geo(e.scalar(), tau, n)
			}
			call := func(a, b [][]*big.Int, order int) func() error {
				return func() error {
					var args []pokmpc.Repr
					for _, s := range a {
						args = append(args, pokmpc.Repr{Kind: "g1s", Pts: e.P1s(s)})
					}
					var g2a []pokmpc.Repr
					for _, s := range b {
						g2a = append(g2a, pokmpc.Repr{Kind: "g2s", Pts: e.P2s(s)})
					}
					switch order % 3 {
					case 0:
						args = append(args, g2a...)
					case 1:
						args = append(g2a, args...)
					default: // G2 slices inserted after the first G1 slice
						args = append(append(append([]pokmpc.Repr(nil), args[0]), g2a...), args[1:]...)
					}
					return e.in.SameRatioMany(args)
				}
			}
			desc := func(a, b [][]*big.Int) func() string {
				return func() string {
					s := fmt.Sprintf("G1 slice lengths %v, G2 slice lengths %v, ratio %s; discrete logs G1:", sh.l1, sh.l2, short(tau))
					if len(a)+len(b) <= 5 {
						for _, x := range a {
							s += " " + hexs(x)
						}
						s += " G2:"
						for _, x := range b {
							s += " " + hexs(x)
						}
					} else {
						s += " (omitted)"
					}
					return s
				}
			}
			okH := e.honest(op, sc, desc(a, b), call(a, b, si+round))
			c.Class(fmt.Sprintf("%s/shape/%v-%v", op, sh.l1, sh.l2))
			if !okH {
				continue // forgeries on a shape whose honest input is refused would be vacuous
			}
			// one slice made entirely of identities next to proper ones: still geometric with any ratio
			if len(sh.l1) > 1 && round == 0 {
				a2 := cp2(a)
				a2[len(a2)-1] = geo(new(big.Int), tau, sh.l1[len(sh.l1)-1])
				e.verdict(op, "one-all-identity-slice/"+sc, false, rel(a2, b), desc(a2, b), call(a2, b, si))
			}
			// every slice of one group made of identities: that group holds no representative of the ratio, which is
			// documented as an error - in every argument order, whatever the other group holds (here: not geometric)
			if round == 0 {
				for gi, gname := range []string{"g1", "g2"} {
					a3, b3 := cp2(a), cp2(b)
					zero, other := &a3, &b3
					if gi == 1 {
						zero, other = &b3, &a3
					}
					for i := range *zero {
						(*zero)[i] = geo(new(big.Int), tau, len((*zero)[i]))
					}
					last := len((*other)[0]) - 1
					(*other)[0][last] = e.other((*other)[0][last])
					for order := 0; order < 3; order++ {
						e.forged(op, fmt.Sprintf("all-slices-of-%s-are-identities/order%d", gname, order), desc(a3, b3), call(a3, b3, order))
					}
				}
			}
			fg := func(kind string, a2, b2 [][]*big.Int) {
				if rel(a2, b2) {
					return // the substitution happened to keep the statement true
				}
				e.forged(op, kind, desc(a2, b2), call(a2, b2, si+round+1))
			}
			for gi, grp := range []*[][]*big.Int{&a, &b} {
				gname := []string{"g1", "g2"}[gi]
				for i := range *grp {
					n := len((*grp)[i])
					js := []int{0, n - 1}
					if n > 2 {
						js = append(js, n/2)
					}
					sl := "only-slice"
					if len(*grp) > 1 {
						sl = posClass(i, len(*grp)) + "-slice"
					}
					for _, j := range js {
						for _, sub := range []string{"random", "identity", "shifted-by-generator", "negated"} {
							if sub == "identity" && j == 0 {
								continue // would break the documented non-zero precondition rather than the ratio
							}
							t := cp2(*grp)
							switch sub {
							case "random":
								t[i][j] = e.other(t[i][j])
							case "identity":
								t[i][j] = new(big.Int)
							case "shifted-by-generator":
								t[i][j] = e.add(t[i][j], big.NewInt(1))
							case "negated":
								t[i][j] = e.neg(t[i][j])
							}
							kind := fmt.Sprintf("element:=%s/%s/%s/%s", sub, gname, sl, posClass(j, n))
							if gi == 0 {
								fg(kind, t, b)
							} else {
								fg(kind, a, t)
							}
						}
					}
					// the whole slice with another ratio / reversed
					t := cp2(*grp)
					t[i] = geo(t[i][0], e.other(tau), n)
					kind := fmt.Sprintf("slice-with-another-ratio/%s/%s", gname, sl)
					if gi == 0 {
						fg(kind, t, b)
					} else {
						fg(kind, a, t)
					}
					t = cp2(*grp)
					for l, r := 0, n-1; l < r; l, r = l+1, r-1 {
						t[i][l], t[i][r] = t[i][r], t[i][l]
					}
					kind = fmt.Sprintf("slice-reversed/%s/%s", gname, sl)
					if gi == 0 {
						fg(kind, t, b)
					} else {
						fg(kind, a, t)
					}
					if n > 2 {
						t = cp2(*grp)
						t[i][1], t[i][2] = t[i][2], t[i][1]
						kind = fmt.Sprintf("two-elements-exchanged/%s/%s", gname, sl)
						if gi == 0 {
							fg(kind, t, b)
						} else {
							fg(kind, a, t)
						}
					}
				}
			}
			// every G2 slice geometric with ratio tau', every G1 slice with tau
			tau2 := e.other(tau)
			b2 := make([][]*big.Int, len(b))
			for k := range b {
				b2[k] = geo(b[k][0], tau2, len(b[k]))
			}
			fg("all-g2-slices-with-another-ratio", a, b2)
		}
	}
}
