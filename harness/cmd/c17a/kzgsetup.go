package main

import (
	"bytes"
	"crypto/sha256"
	"fmt"
	"math/big"
	"reflect"
	"strings"

	"verif/harness/adapt/pokmpc"
)

// kzg.MpcSetup: one round of a powers-of-tau ceremony (MMORPG, eprint 2017/1050, applied to a KZG SRS).
// State: ([tau^i]G1 for i < N, [tau]G2), plus the update proof of the last contribution and the hash of the
// state it was computed from. A contribution x turns tau into x.tau.
// What a verifier of `next` against `prev` has to establish (from the protocol, not from the code):
//
//	V1 next.challenge is the hash of prev                      (contributions are chained)
//	V2 same number of powers
//	V3 next.[tau]G2 and every next.[tau^i]G1 are in the order-r subgroups
//	V4 the update proof is a valid proof of knowledge of a non-zero x for THAT challenge
//	V5 next.[tau]G2 = x . prev.[tau]G2
//	V6 next's G1 powers are the powers of next's tau:  e(next.G1[i+1], G2) = e(next.G1[i], next.[tau]G2), G1[0] = G1
//
// Only what the serialization carries is under the adversary's control: G1[1..N-1], G2[1], the two proof
// components and the challenge (ReadFrom forces G1[0] and G2[0] to the generators).

type kz struct {
	e      *env
	t1, t2 reflect.Type
}

func (k kz) g1(s any, i int) any       { return getPt(field(s, "srs.Pk.G1").Index(i)) }
func (k kz) setG1(s any, i int, h any) { setPt(field(s, "srs.Pk.G1").Index(i), h) }
func (k kz) n(s any) int               { return field(s, "srs.Pk.G1").Len() }
func (k kz) tau2(s any) any            { return getPt(field(s, "srs.Vk.G2").Index(1)) }
func (k kz) setTau2(s any, h any)      { setPt(field(s, "srs.Vk.G2").Index(1), h) }
func (k kz) proof(s any) any           { return field(s, "proof").Addr().Interface() }
func (k kz) setProof(s any, p any)     { field(s, "proof").Set(reflect.ValueOf(p).Elem()) }
func (k kz) challenge(s any) []byte    { return append([]byte(nil), field(s, "challenge").Bytes()...) }
func (k kz) setChallenge(s any, b []byte) {
	field(s, "challenge").SetBytes(append([]byte(nil), b...))
}
func (k kz) resizeG1(s any, n int, fill any) {
	v := field(s, "srs.Pk.G1")
	nv := reflect.MakeSlice(v.Type(), n, n)
	reflect.Copy(nv, v)
	for i := v.Len(); i < n; i++ {
		setPt(nv.Index(i), fill)
	}
	v.Set(nv)
}

// sameWire reports whether two states agree on every component the wire format carries.
func (k kz) sameWire(a, b any) bool {
	la, lb := leaves(a, k.t1, k.t2), leaves(b, k.t1, k.t2)
	if len(la) != len(lb) {
		return false
	}
	for i := range la {
		if ser, _ := serializedLeaf(la[i].path, 0); !ser {
			continue
		}
		if la[i].path != lb[i].path || !reflect.DeepEqual(la[i].v.Interface(), lb[i].v.Interface()) {
			return false
		}
	}
	return true
}

// serialized reports whether a leaf of MpcSetup is carried by WriteTo/ReadFrom (adversary controlled).
func serializedLeaf(path string, n int) (ser, known bool) {
	switch {
	case path == "srs.Pk.G1[0]" || path == "srs.Vk.G2[0]" || path == "srs.Vk.G1" || path == "srs.Vk.Lines":
		return false, true // fixed by ReadFrom / derived at Seal
	case strings.HasPrefix(path, "srs.Pk.G1["), path == "srs.Vk.G2[1]", path == "proof.contributionCommitment", path == "proof.contributionPok", path == "challenge":
		return true, true
	}
	return false, false
}

func (e *env) kzgSetup() {
	c := e.c
	pkg := e.L + "/kzg"
	op := pkg + "/MpcSetup.Verify"
	k := kz{e, reflect.TypeOf(e.in.Gen1).Elem(), reflect.TypeOf(e.in.Gen2).Elem()}
	sizes := []int{2, 3, 4, 9, 32}
	if c.Thorough() {
		sizes = []int{2, 3, 4, 5, 6, 7, 8, 9, 10, 16, 17, 33, 64, 128, 257}
	}
	one := big.NewInt(1)
	for si, N := range sizes {
		for _, round := range []int{1, 2} {
			if round == 2 && si%2 == 1 && !c.Thorough() {
				continue
			}
			// prev: the initial state (round 1) or the state after one honest contribution (round 2)
			var P any
			descN := func() string { return fmt.Sprintf("N=%d, previous state = %d honest contribution(s)", N, round-1) }
			if c.Guard(pkg+"/MpcSetup.Contribute/panic", descN, func() {
				P = e.in.KzgInit(N)
				if round == 2 {
					e.in.KzgContribute(P)
				}
			}) {
				continue
			}
			// the struct must consist of the components the monitor knows
			unknown := false
			for _, l := range leaves(P, k.t1, k.t2) {
				if _, known := serializedLeaf(l.path, N); !known {
					c.Inconclusive("%s: MpcSetup has a component the monitor does not know: %s (%s)", pkg, l.path, l.kind)
					unknown = true
				}
			}
			if unknown {
				return
			}
			contribute := func() any {
				s := deepCopy(P)
				e.in.KzgContribute(s)
				return s
			}
			var A, B, C any
			if c.Guard(pkg+"/MpcSetup.Contribute/panic", descN, func() {
				A, B = contribute(), contribute()
				C = deepCopy(A)
				e.in.KzgContribute(C)
			}) {
				continue
			}
			verify := func(prev, next any) error { return e.in.KzgVerify(deepCopy(prev), deepCopy(next)) } // Verify writes next.challenge
			nc := fmt.Sprintf("N=%s/round%d", sizeClass(N), round)
			okA := e.honest(op, "contribution/"+nc, descN, func() error { return verify(P, A) })
			e.honest(op, "second-contribution-of-same-state/"+nc, descN, func() error { return verify(P, B) })
			e.honest(op, "next-round/"+nc, descN, func() error { return verify(A, C) })
			c.Class(fmt.Sprintf("%s/N=%d/round%d", op, N, round))
			// honest through the wire format (both sides)
			var Aw, Pw any
			var err error
			if !c.Guard(pkg+"/MpcSetup.ReadFrom/panic", descN, func() {
				var b []byte
				if b, err = e.in.KzgWrite(A); err == nil {
					if Aw, err = e.in.KzgRead(b); err == nil && round == 2 {
						if b, err = e.in.KzgWrite(P); err == nil {
							Pw, err = e.in.KzgRead(b)
						}
					}
				}
			}) && c.Check("MpcSetup.WriteTo", pkg+"/MpcSetup.WriteTo/round-trip-error", err == nil, func() string { return descN() + fmt.Sprint(" err=", err) }) {
				e.honest(op, "contribution-after-WriteTo-ReadFrom/"+nc, descN, func() error { return verify(P, Aw) })
				if Pw != nil {
					e.honest(op, "both-states-after-WriteTo-ReadFrom/"+nc, descN, func() error { return verify(Pw, Aw) })
				}
			}
			if !okA {
				continue
			}
			// forged: in memory and through WriteTo/ReadFrom (what another participant would receive)
			forged := func(kind string, f any, how string) {
				desc := func() string { return descN() + "; forged next state: " + how }
				e.forged(op, kind, func() string { return desc() + " [verified as the in-memory object]" }, func() error { return verify(P, f) })
				var back any
				var rerr error
				if c.Guard(pkg+"/MpcSetup.ReadFrom/panic/"+kind, desc, func() {
					var b []byte
					if b, rerr = e.in.KzgWrite(f); rerr == nil {
						back, rerr = e.in.KzgRead(b)
					}
				}) {
					return
				}
				if rerr != nil {
					c.Eval(op, 1)
					c.Class(op + "/reject/refused-by-the-decoder/" + kind)
					return
				}
				if !k.sameWire(f, back) {
					// e.g. (x, y+1): the compressed encoding cannot carry it, the decoder rebuilds a valid point
					c.Class(op + "/not-representable-on-the-wire/" + kind)
					return
				}
				e.forged(op, kind, func() string { return desc() + " [serialized with WriteTo, read back with ReadFrom, then verified]" }, func() error { return verify(P, back) })
			}
			mod := func(base any, f func(s any)) any { s := deepCopy(base); f(s); return s }

			// V1 chaining
			forged("challenge-random", mod(A, func(s any) { k.setChallenge(s, e.rng.Bytes(32)) }), "challenge := 32 seeded bytes")
			forged("challenge-zeros", mod(A, func(s any) { k.setChallenge(s, make([]byte, 32)) }), "challenge := 32 zero bytes")
			forged("challenge-one-bit-flipped", mod(A, func(s any) { b := k.challenge(s); b[31] ^= 1; k.setChallenge(s, b) }), "challenge with its last bit flipped")
			forged("contribution-to-a-later-state", C, "next := a contribution built on top of A (challenge = H(A)), verified against prev")
			forged("contribution-to-a-later-state-challenge-rewritten", mod(C, func(s any) { k.setChallenge(s, k.challenge(A)) }), "the same with challenge := H(prev): the proof of knowledge is for a stale challenge")
			forged("previous-state-replayed", mod(P, func(s any) { k.setChallenge(s, k.challenge(A)) }), "next := prev itself with challenge := H(prev)")
			// V4 proof of knowledge
			forged("proof-of-another-contribution", mod(A, func(s any) { k.setProof(s, k.proof(B)) }), "proof := the proof of another honest contribution B of the same prev (valid PoK, wrong x)")
			// V5 [tau]G2
			forged("g2-not-updated", mod(A, func(s any) { k.setTau2(s, k.tau2(P)) }), "[tau]G2 := prev's")
			forged("g2-and-g1-of-another-contribution", mod(B, func(s any) { k.setProof(s, k.proof(A)) }), "powers (G1 and G2) of contribution B with the proof of contribution A")
			forged("g2-of-another-contribution", mod(A, func(s any) { k.setTau2(s, k.tau2(B)) }), "[tau]G2 := the one of contribution B")
			// zero contribution: all ratio equations hold trivially
			forged("zero-contribution", mod(A, func(s any) {
				for i := 1; i < N; i++ {
					k.setG1(s, i, e.in.Inf1())
				}
				k.setTau2(s, e.in.Inf2())
				k.setProof(s, e.makeProof(e.in.Inf1(), e.in.Inf2()))
			}), "x = 0: every updated element and both proof components are the identity")
			// V2 sizes
			forged("one-power-more", mod(A, func(s any) { k.resizeG1(s, N+1, k.g1(s, N-1)) }), "N+1 powers")
			if N > 2 {
				forged("one-power-less", mod(A, func(s any) { k.resizeG1(s, N-1, nil) }), "N-1 powers")
			}
			// V3 subgroup membership
			j := 1 + e.rng.Intn(N-1)
			if e.t1 != nil {
				forged("g1-power-plus-cofactor-torsion", mod(A, func(s any) { k.setG1(s, j, oadd(e.g1, k.g1(s, j), e.t1)) }), fmt.Sprintf("G1[%d] += a point of cofactor order", j))
				forged("g1-last-power-plus-cofactor-torsion", mod(A, func(s any) { k.setG1(s, N-1, oadd(e.g1, k.g1(s, N-1), e.t1)) }), fmt.Sprintf("G1[%d] += a point of cofactor order", N-1))
				forged("proof-commitment-plus-cofactor-torsion", mod(A, func(s any) {
					com, pok := e.proofParts(k.proof(s))
					k.setProof(s, e.makeProof(oadd(e.g1, com, e.t1), pok))
				}), "proof.contributionCommitment += a point of cofactor order")
			} else {
				c.Class(op + "/not-applicable/G1-cofactor-1")
			}
			if e.t2 != nil {
				forged("g2-plus-cofactor-torsion", mod(A, func(s any) { k.setTau2(s, oadd(e.g2, k.tau2(s), e.t2)) }), "[tau]G2 += a point of cofactor order")
				forged("proof-pok-plus-cofactor-torsion", mod(A, func(s any) {
					com, pok := e.proofParts(k.proof(s))
					k.setProof(s, e.makeProof(com, oadd(e.g2, pok, e.t2)))
				}), "proof.contributionPok += a point of cofactor order")
			}
			forged("g1-power-off-curve", mod(A, func(s any) { k.setG1(s, j, offCurve(e.g1, k.g1(s, j))) }), fmt.Sprintf("G1[%d] := (x, y+1)", j))
			forged("g2-off-curve", mod(A, func(s any) { k.setTau2(s, offCurve(e.g2, k.tau2(s))) }), "[tau]G2 := (x, y+1)")
			// V6 next's G1 powers tied to next's [tau]G2
			u := "next-g1-powers-not-tied-to-next-tau/"
			forged(u+"g1-powers-of-another-contribution", mod(A, func(s any) {
				for i := 1; i < N; i++ {
					k.setG1(s, i, k.g1(B, i))
				}
			}), "G1[1..] := the powers of contribution B (another tau); [tau]G2, proof, challenge of A")
			forged(u+"g1-powers-not-updated", mod(A, func(s any) {
				for i := 1; i < N; i++ {
					k.setG1(s, i, k.g1(P, i))
				}
			}), "G1[1..] := prev's powers (G1 side not updated at all)")
			forged(u+"one-g1-power-random", mod(A, func(s any) { k.setG1(s, j, e.P1(e.scalar())) }), fmt.Sprintf("G1[%d] := seeded subgroup point", j))
			forged(u+"last-g1-power-random", mod(A, func(s any) { k.setG1(s, N-1, e.P1(e.scalar())) }), fmt.Sprintf("G1[%d] := seeded subgroup point", N-1))
			forged(u+"one-g1-power-identity", mod(A, func(s any) { k.setG1(s, j, e.in.Inf1()) }), fmt.Sprintf("G1[%d] := O", j))
			forged(u+"one-g1-power-shifted-by-generator", mod(A, func(s any) { k.setG1(s, j, oadd(e.g1, k.g1(s, j), e.in.Gen1)) }), fmt.Sprintf("G1[%d] += G1", j))
			forged(u+"one-g1-power-from-another-contribution", mod(A, func(s any) { k.setG1(s, j, k.g1(B, j)) }), fmt.Sprintf("G1[%d] := B's", j))
			if N > 2 {
				forged(u+"two-g1-powers-exchanged", mod(A, func(s any) { a, b := k.g1(s, 1), k.g1(s, 2); k.setG1(s, 1, b); k.setG1(s, 2, a) }), "G1[1] <-> G1[2]")
			}

			// ---- single-field substitutions of every serialized leaf found by reflection ----
			lsA := leaves(A, k.t1, k.t2)
			lsB := leaves(B, k.t1, k.t2)
			for li, l := range lsA {
				ser, _ := serializedLeaf(l.path, N)
				if !ser {
					c.Class(op + "/not-substituted/in-memory-only/" + stripIdx(l.path))
					continue
				}
				if strings.HasPrefix(l.path, "srs.Pk.G1[") && N > c.Pick(9, 33) && li%(1+N/c.Pick(5, 12)) != 3 && l.path != fmt.Sprintf("srs.Pk.G1[%d]", N-1) {
					continue // every G1 power up to N = 9 (thorough: 33); about 5 (12) of them and the last one above
				}
				var subs []struct {
					name string
					set  func(v reflect.Value)
				}
				addS := func(name string, set func(v reflect.Value)) {
					subs = append(subs, struct {
						name string
						set  func(v reflect.Value)
					}{name, set})
				}
				switch l.kind {
				case "g1":
					addS("identity", func(v reflect.Value) { setPt(v, e.in.Inf1()) })
					addS("random-point", func(v reflect.Value) { setPt(v, e.P1(e.scalar())) })
					addS("from-another-honest-proof", func(v reflect.Value) { setPt(v, getPt(lsB[li].v)) })
					addS("shifted-by-generator", func(v reflect.Value) { setPt(v, oadd(e.g1, getPt(v), e.in.Gen1)) })
				case "g2":
					addS("identity", func(v reflect.Value) { setPt(v, e.in.Inf2()) })
					addS("random-point", func(v reflect.Value) { setPt(v, e.P2(e.scalar())) })
					addS("from-another-honest-proof", func(v reflect.Value) { setPt(v, getPt(lsB[li].v)) })
					addS("shifted-by-generator", func(v reflect.Value) { setPt(v, oadd(e.g2, getPt(v), e.in.Gen2)) })
				case "bytes":
					addS("zeros", func(v reflect.Value) { v.SetBytes(make([]byte, 32)) })
					addS("random", func(v reflect.Value) { v.SetBytes(e.rng.Bytes(32)) })
					addS("from-another-state", func(v reflect.Value) { v.SetBytes(k.challenge(C)) })
					addS("incremented", func(v reflect.Value) {
						b := append([]byte(nil), v.Bytes()...)
						for i := len(b) - 1; i >= 0; i-- {
							b[i]++
							if b[i] != 0 {
								break
							}
						}
						v.SetBytes(b)
					})
				}
				for _, sb := range subs {
					f := deepCopy(A)
					sb.set(leaves(f, k.t1, k.t2)[li].v)
					kind := "substitution/" + stripIdx(l.path) + ":=" + sb.name
					if strings.HasPrefix(l.path, "srs.Pk.G1[") {
						kind = u + "substitution/" + stripIdx(l.path) + ":=" + sb.name
					}
					forged(kind, f, l.path+" := "+sb.name)
				}
			}

			// ---- contributions with a KNOWN x, rebuilt from the protocol description with the package's own
			// UpdateValues: acceptance must coincide with "every component was multiplied by the right power of x"
			if round == 1 || c.Thorough() {
				e.kzgKnown(k, P, N, nc, verify, one)
			}
		}
	}
}

func stripIdx(p string) string {
	if i := strings.Index(p, "G1["); i >= 0 {
		return p[:i] + "G1[i]"
	}
	return p
}

// knownContribution rebuilds Contribute with a chosen x: challenge = SHA-256 of the serialized previous state,
// update proof over "KZG Setup" || challenge with dst 0 (the package's domain separation), [tau]G2 updated by
// the package's UpdateValues, G1[i] multiplied by f(i).
// pokChal / pokDst override what the proof of knowledge is computed for (nil: the right challenge).
func (e *env) knownContribution(k kz, P any, x *big.Int, f func(i int) *big.Int, pokChal []byte, pokDst byte) any {
	s := deepCopy(P)
	h := e.stateHash(P)
	k.setChallenge(s, h)
	if pokChal == nil {
		pokChal = append([]byte("KZG Setup"), h...)
	}
	proof, upd, _ := e.in.UpdateValues(x, pokChal, pokDst, []pokmpc.Repr{{Kind: "g2p", Pts: []any{k.tau2(s)}}})
	k.setProof(s, proof)
	k.setTau2(s, upd[0].Pts[0])
	for i := 1; i < k.n(s); i++ {
		k.setG1(s, i, e.in.Mul1(k.g1(s, i), f(i)))
	}
	return s
}

func (e *env) stateHash(P any) []byte {
	b, err := e.in.KzgWrite(P)
	if err != nil {
		panic(err)
	}
	h := sha256.Sum256(b)
	return h[:]
}

func (e *env) kzgKnown(k kz, P any, N int, nc string, verify func(prev, next any) error, one *big.Int) {
	c := e.c
	op := e.L + "/kzg/MpcSetup.Verify"
	x := e.other(one)
	descX := func(x *big.Int, what string) func() string {
		return func() string {
			return fmt.Sprintf("N=%d contribution rebuilt with known x=%s: %s", N, x.Text(16), what)
		}
	}
	pw := func(x *big.Int) func(i int) *big.Int { return func(i int) *big.Int { return e.pow(x, i) } }
	var K any
	if c.Guard(op+"/panic/known-contribution", descX(x, "honest"), func() { K = e.knownContribution(k, P, x, pw(x), nil, 0) }) {
		return
	}
	// calibration: the library's own Contribute must agree with the rebuilt one on what is fixed by the protocol
	if err := verify(P, K); err != nil {
		// either the verifier refuses honest contributions (reported by the Contribute-based cases) or the
		// package changed its domain separation and the forger's model is out of date
		c.Inconclusive("%s: a contribution rebuilt from the protocol description (known x) is refused (%v) although Contribute()'s is accepted: forger model out of date", op, err)
		return
	}
	e.honest(op, "known-x/random/"+nc, descX(x, "G1[i] *= x^i, [tau]G2 *= x"), func() error { return verify(P, K) })
	for _, bx := range []struct {
		name string
		x    *big.Int
	}{{"one", one}, {"r-1", new(big.Int).Sub(e.r, one)}, {"two", big.NewInt(2)}} {
		var K2 any
		if !c.Guard(op+"/panic/known-contribution", descX(bx.x, "honest"), func() { K2 = e.knownContribution(k, P, bx.x, pw(bx.x), nil, 0) }) {
			e.honest(op, "known-x/"+bx.name+"/"+nc, descX(bx.x, "G1[i] *= x^i, [tau]G2 *= x"), func() error { return verify(P, K2) })
		}
	}
	u := "next-g1-powers-not-tied-to-next-tau/"
	y := e.other(x, one)
	var pokChal []byte
	var pokDst byte
	fk := func(kind, what string, f func(i int) *big.Int) {
		if pokChal == nil {
			same := true
			for i := 1; i < N; i++ {
				same = same && f(i).Cmp(e.pow(x, i)) == 0
			}
			if same {
				return // at this N the "forgery" is the honest contribution
			}
		}
		var F any
		if c.Guard(op+"/panic/known-contribution", descX(x, what), func() { F = e.knownContribution(k, P, x, f, pokChal, pokDst) }) {
			return
		}
		e.forged(op, kind, descX(x, what), func() error { return verify(P, F) })
		b, err := e.in.KzgWrite(F)
		if err != nil {
			return
		}
		back, err := e.in.KzgRead(b)
		if err != nil {
			return
		}
		if !bytes.Equal(k.challenge(back), k.challenge(F)) || !k.sameWire(F, back) {
			return
		}
		e.forged(op, kind, func() string { return descX(x, what)() + " [through WriteTo/ReadFrom]" }, func() error { return verify(P, back) })
	}
	// V4 alone: everything multiplied by the right powers of x, commitment [x]G1, but the proof of knowledge was
	// made for another challenge / dst (replay of an old proof). Only meaningful when the challenge point moves.
	trueChal := append([]byte("KZG Setup"), e.stateHash(P)...)
	if R, ok := e.pokBase(e.P1(x), trueChal, 0); ok {
		other := sha256.Sum256(trueChal)
		pokChal = append([]byte("KZG Setup"), other[:]...)
		if e.rebinds(e.P1(x), R, trueChal, 0, pokChal, 0) {
			fk("known-x/pok-for-a-stale-challenge", "all powers right, proof of knowledge computed for another challenge", pw(x))
		}
		pokChal, pokDst = trueChal, 1
		if e.rebinds(e.P1(x), R, trueChal, 0, trueChal, 1) {
			fk("known-x/pok-for-another-dst", "all powers right, proof of knowledge computed with dst 1", pw(x))
		}
		pokChal, pokDst = nil, 0
	}
	// V3 on the proof commitment alone: X + T with the proof of knowledge recomputed for it
	if e.t1 != nil {
		comT := oadd(e.g1, e.P1(x), e.t1)
		if RT, ok := e.pokBase(comT, trueChal, 0); ok {
			var F any
			what := "all powers right; proof commitment [x]G1 + (point of cofactor order), pok = [x]R recomputed for that commitment"
			if !c.Guard(op+"/panic/known-contribution", descX(x, what), func() {
				F = e.knownContribution(k, P, x, pw(x), nil, 0)
				k.setProof(F, e.makeProof(comT, e.in.Mul2(RT, x)))
			}) {
				e.forged(op, "known-x/proof-commitment-plus-cofactor-torsion-pok-recomputed", descX(x, what), func() error { return verify(P, F) })
			}
		}
	}
	fk(u+"known-x/g1-powers-of-another-factor", fmt.Sprintf("G1[i] *= y^i with y=%s, [tau]G2 *= x, proof for x", y.Text(16)), pw(y))
	fk(u+"known-x/g1-multiplied-by-x-not-its-powers", "G1[i] *= x for every i (not x^i)", func(i int) *big.Int { return x })
	if N > 2 {
		fk(u+"known-x/last-g1-power-wrong-exponent", fmt.Sprintf("G1[%d] *= x^%d instead of x^%d", N-1, N-2, N-1), func(i int) *big.Int {
			if i == N-1 {
				return e.pow(x, N-2)
			}
			return e.pow(x, i)
		})
	}
	fk(u+"known-x/first-g1-power-wrong-factor", "G1[1] *= y, the others by x^i", func(i int) *big.Int {
		if i == 1 {
			return y
		}
		return e.pow(x, i)
	})
}
