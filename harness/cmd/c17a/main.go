// C17A (part of C17): argument-system verifiers of the Pedersen proof-of-knowledge package and of the
// setup-ceremony tools (mpcsetup.UpdateProof / SameRatioMany, kzg.MpcSetup) on the 7 pairing curves.
//
// Every statement is built from known discrete logarithms (trapdoors), so the expected verdict of every
// verifier call is decided by arithmetic modulo r on scalars - never by a pairing. Honest proofs come from the
// library's own prover code; forgeries are built from the checks the SPECIFICATION of each scheme demands
// (one targeted forgery per check) plus single-field substitutions of every proof field found by reflection.
package main

import (
	"flag"
	"fmt"
	"math/big"
	"strings"
	"sync"
	"time"

	"verif/harness/adapt/groups"
	"verif/harness/adapt/pokmpc"
	"verif/harness/gen"
	"verif/harness/mon"
	"verif/harness/oracle/ofield"
)

var flagPar = flag.Int("par", 16, "sections (curve x scheme) processed concurrently")

type env struct {
	c      *mon.Ctx
	in     *pokmpc.Inst
	g1, g2 *groups.Group
	L      string // "ecc/<curve>"
	rng    *gen.Rng
	r      *big.Int
	// t1, t2: non-zero points of E(Fp) / E'(Fp^k) of the form [r]P (outside the order-r subgroup, "cofactor
	// torsion"); nil when the cofactor is 1. Computed with the affine oracle.
	t1, t2 any
	nAudit [2]int
}

// ---- scalars ----

func (e *env) mod(x *big.Int) *big.Int { return new(big.Int).Mod(x, e.r) }
func (e *env) mul(a, b *big.Int) *big.Int {
	return e.mod(new(big.Int).Mul(a, b))
}
func (e *env) add(a, b *big.Int) *big.Int { return e.mod(new(big.Int).Add(a, b)) }
func (e *env) sub(a, b *big.Int) *big.Int { return e.mod(new(big.Int).Sub(a, b)) }
func (e *env) neg(a *big.Int) *big.Int    { return e.mod(new(big.Int).Neg(a)) }
func (e *env) inv(a *big.Int) *big.Int    { return new(big.Int).ModInverse(a, e.r) }
func (e *env) pow(a *big.Int, k int) *big.Int {
	return new(big.Int).Exp(a, big.NewInt(int64(k)), e.r)
}

// scalar returns a uniform element of [1, r).
func (e *env) scalar() *big.Int {
	return new(big.Int).Add(e.rng.BigBelow(new(big.Int).Sub(e.r, big.NewInt(1))), big.NewInt(1))
}

// other returns a scalar of [1, r) different from every given one.
func (e *env) other(not ...*big.Int) *big.Int {
	for {
		s := e.scalar()
		ok := true
		for _, n := range not {
			if n != nil && s.Cmp(n) == 0 {
				ok = false
			}
		}
		if ok {
			return s
		}
	}
}
func (e *env) scalars(n int) []*big.Int {
	out := make([]*big.Int, n)
	for i := range out {
		out[i] = e.scalar()
	}
	return out
}

func short(x *big.Int) string {
	s := x.Text(16)
	if len(s) > 14 {
		return "0x" + s[:6] + ".." + s[len(s)-6:]
	}
	return "0x" + s
}

// ---- points built from scalars (library scalar multiplication, audited against the affine oracle) ----

func (e *env) P1(k *big.Int) any { return e.pt(0, k) }
func (e *env) P2(k *big.Int) any { return e.pt(1, k) }

func (e *env) pt(which int, k *big.Int) any {
	k = e.mod(k)
	var p any
	g := e.g1
	if which == 0 {
		if k.Sign() == 0 {
			return e.in.Inf1()
		}
		p = e.in.Mul1(e.in.Gen1, k)
	} else {
		g = e.g2
		if k.Sign() == 0 {
			return e.in.Inf2()
		}
		p = e.in.Mul2(e.in.Gen2, k)
	}
	// audit a deterministic sample of the library-built points with the oracle group law
	e.nAudit[which]++
	every := []int{97, 389}[which]
	if e.nAudit[which]%every == 1 {
		want := g.C.Mul(g.G, k)
		got := g.Pt(g.FromLib(p))
		e.c.Check("audit", e.L+"/input-builder/scalar-multiplication-differs-from-oracle/"+g.Which, g.C.Eq(want, got), func() string {
			return fmt.Sprintf("[k]G for k=%s: library point differs from the affine oracle (inputs of this run are unreliable)", k.Text(16))
		})
	}
	return p
}

func (e *env) P1s(ks []*big.Int) []any {
	out := make([]any, len(ks))
	for i := range ks {
		out[i] = e.P1(ks[i])
	}
	return out
}
func (e *env) P2s(ks []*big.Int) []any {
	out := make([]any, len(ks))
	for i := range ks {
		out[i] = e.P2(ks[i])
	}
	return out
}

// oadd adds two curve points (any points of the curve, subgroup or not) with the affine oracle.
func oadd(g *groups.Group, a, b any) any {
	s := g.C.Add(g.Pt(g.FromLib(a)), g.Pt(g.FromLib(b)))
	return g.Lib(g.Rep(s, "aff", nil))
}

// offCurve returns (x, y+1): not a point of the curve.
func offCurve(g *groups.Group, a any) any {
	rep := g.FromLib(a)
	rep.C[1] = g.F.Add(rep.C[1], g.F.One())
	return g.Lib(rep)
}

// torsion returns a non-zero [r]P for a seeded point P of the curve, or nil when none is found (cofactor 1).
func torsion(g *groups.Group, rng *gen.Rng) any {
	for try := 0; try < 40; try++ {
		x := make(ofield.El, g.F.Deg())
		for i := range x {
			x[i] = rng.BigBelow(g.P)
		}
		p, ok := g.C.LiftX(x)
		if !ok {
			continue
		}
		t := g.C.Mul(p, g.R)
		if t.Inf {
			if try >= 3 {
				return nil
			}
			continue
		}
		if !g.C.IsOnCurve(t) {
			panic("oracle torsion point off curve")
		}
		return g.Lib(g.Rep(t, "aff", nil))
	}
	return nil
}

// ---- verdicts ----

// verdict runs one verifier call and compares accept / reject with the oracle's decision.
//
//	honest == true : an honest proof (prover code on an admissible statement); rejection -> <op>/honest-rejected/<kind>
//	wantAccept     : the algebraic relation holds (but the input is not the prover's output) -> <op>/valid-rejected/<kind>
//	otherwise      : a forgery; acceptance -> <op>/forgery-accepted/<kind>
func (e *env) verdict(op, kind string, honest, wantAccept bool, desc func() string, call func() error) (accepted bool) {
	var err error
	e.c.Current(op + " " + kind)
	if e.c.Guard(op+"/panic/"+kind, desc, func() { err = call() }) {
		return false
	}
	e.c.Class(op + "/" + map[bool]string{true: "accept", false: "reject"}[wantAccept] + "/" + kind)
	if i := strings.Index(op, "/"); i >= 0 { // one example per entry point and expected verdict (whatever the curve)
		if j := strings.Index(op[i+1:], "/"); j >= 0 {
			e.c.SampleOnce(op[i+j+2:]+map[bool]string{true: " accepts", false: " rejects"}[wantAccept], map[string]any{
				"instance": op, "kind": kind, "case": desc(), "verifier_error": fmt.Sprint(err), "expected_accept": wantAccept})
		}
	}
	switch {
	case honest:
		e.c.Check(op, op+"/honest-rejected/"+kind, err == nil, func() string { return "honest proof rejected: " + desc() + " err=" + fmt.Sprint(err) })
	case wantAccept:
		e.c.Check(op, op+"/valid-rejected/"+kind, err == nil, func() string {
			return "the relation holds but the verifier rejects: " + desc() + " err=" + fmt.Sprint(err)
		})
	default:
		e.c.Check(op, op+"/forgery-accepted/"+kind, err != nil, func() string { return "forgery ACCEPTED (nil error): " + desc() })
	}
	return err == nil
}

func (e *env) honest(op, kind string, desc func() string, call func() error) bool {
	return e.verdict(op, kind, true, true, desc, call)
}
func (e *env) forged(op, kind string, desc func() string, call func() error) bool {
	return e.verdict(op, kind, false, false, desc, call)
}

func runCurve(c *mon.Ctx, name string, newInst func() *pokmpc.Inst) {
	e := &env{c: c, in: newInst(), L: "ecc/" + name, rng: gen.New(c.Seed, "c17a/"+name)}
	e.r = e.in.R
	for _, g := range groups.All {
		if g.Name == name+"/G1" {
			e.g1 = g.New()
		}
		if g.Name == name+"/G2" {
			e.g2 = g.New()
		}
	}
	if e.g1 == nil || e.g2 == nil {
		c.Inconclusive("no group adapter for %s", name)
		return
	}
	for _, g := range []*groups.Group{e.g1, e.g2} {
		if err := g.Bind(); err != nil {
			c.Inconclusive("oracle curve for %s: %v", g.Name, err)
			return
		}
	}
	if e.g1.R.Cmp(e.r) != 0 {
		c.Inconclusive("%s: group order mismatch between adapters", name)
		return
	}
	trng := gen.New(c.Seed, "c17a/torsion/"+name)
	e.t1 = torsion(e.g1, trng)
	e.t2 = torsion(e.g2, trng)
	c.Extra("cofactor_torsion_point/"+name, map[string]bool{"G1": e.t1 != nil, "G2": e.t2 != nil})
	sections := []struct {
		name string
		run  func(e *env)
	}{
		{"kzg", (*env).kzgSetup},
		{"pedersen", (*env).pedersen},
		{"mpcsetup", func(e *env) { e.updateProofs(); e.sameRatio() }},
	}
	var wg sync.WaitGroup
	for _, sec := range sections {
		if !mon.Selected(name + "/" + sec.name) {
			continue
		}
		// every section has its own seeded stream, so that the case list of a section does not depend on the others
		es := *e
		es.rng = gen.New(c.Seed, "c17a/"+name+"/"+sec.name)
		wg.Add(1)
		go func() {
			defer wg.Done()
			sem <- struct{}{}
			defer func() { <-sem }()
			t0 := time.Now()
			c.Guard("ecc/"+name+"/"+sec.name+"/monitor/panic", func() string { return "unexpected panic outside a guarded library call" }, func() { sec.run(&es) })
			c.Extra("wall_s/"+name+"/"+sec.name, time.Since(t0).Seconds())
		}()
	}
	wg.Wait()
}

var sem chan struct{}

func main() {
	c := mon.Init("C17")
	sem = make(chan struct{}, *flagPar)
	var wg sync.WaitGroup
	for _, cv := range pokmpc.All {
		if !mon.Selected(cv.Name) && !mon.Selected(cv.Name+"/pedersen") && !mon.Selected(cv.Name+"/mpcsetup") && !mon.Selected(cv.Name+"/kzg") {
			continue
		}
		wg.Add(1)
		go func() {
			defer wg.Done()
			c.Guard("ecc/"+cv.Name+"/monitor/panic", func() string { return "unexpected panic outside a guarded library call" }, func() {
				runCurve(c, cv.Name, cv.New)
			})
		}()
	}
	wg.Wait()
	c.Finish()
}
