package main

import (
	"fmt"
	"math/big"
)

// Pedersen vector commitment with proof of knowledge (knowledge-of-exponent style):
//
//	key    : basis B_j in G1, B_j^sigma; vk = (G, -sigma.G) in G2
//	commit : C = sum v_j B_j ; proof pi = sum v_j (sigma B_j) = sigma.C
//	verify : C, pi in the order-r subgroup AND e(C, -sigma G) e(pi, G) = 1   <=>  pi = sigma.C
//	batch  : keys (G, -sigma_i G) with one common G, coefficient rho:
//	         prod_i e(rho^i C_i, -sigma_i G) . e(sum_i rho^i pi_i, G) = 1     (the proofs may arrive already folded)
//
// With C = c.G1, pi = p.G1, vk = (g.G2, s.G2) the verifier must accept exactly when c.s + p.g = 0 (mod r)
// (single) resp. sum_i rho^i c_i s_i + g sum_i rho^i p_i = 0 (batch): that congruence is the oracle.

type pedKey struct {
	b     []*big.Int // discrete logs of the basis
	sigma *big.Int
	g     *big.Int // vk.G = g.G2
	pk    any
	vk    any
}

func (e *env) newPedKey(n int, g *big.Int) *pedKey {
	k := &pedKey{b: e.scalars(n), sigma: e.scalar(), g: g}
	bs := make([]*big.Int, n)
	for j := range bs {
		bs[j] = e.mul(k.b[j], k.sigma)
	}
	k.pk = e.in.PedNewPK(e.P1s(k.b), e.P1s(bs))
	k.vk = e.in.PedNewVK(e.P2(g), e.P2(e.neg(e.mul(k.sigma, g))))
	return k
}

func (e *env) dot(a, b []*big.Int) *big.Int {
	s := new(big.Int)
	for i := range a {
		s.Add(s, new(big.Int).Mul(a[i], b[i]))
	}
	return e.mod(s)
}

// values returns a value vector of the named class.
func (e *env) values(class string, n int) []*big.Int {
	v := make([]*big.Int, n)
	for i := range v {
		switch class {
		case "random":
			v[i] = e.rng.BigBelow(e.r)
		case "zeros":
			v[i] = new(big.Int)
		case "max":
			v[i] = new(big.Int).Sub(e.r, big.NewInt(1))
		case "unit":
			v[i] = new(big.Int)
		case "sparse":
			v[i] = new(big.Int)
			if i%3 == 0 {
				v[i] = e.scalar()
			}
		case "small":
			v[i] = big.NewInt(int64(e.rng.Intn(3)))
		}
	}
	if class == "unit" {
		v[e.rng.Intn(n)] = big.NewInt(1)
	}
	return v
}

func (e *env) pedersen() {
	c := e.c
	pkg := e.L + "/fr/pedersen"
	opV := pkg + "/Verify"
	opB := pkg + "/BatchVerifyMultiVk"
	sizes := []int{1, 2, 3, 5, 16, 33}
	if c.Thorough() {
		sizes = []int{1, 2, 3, 4, 5, 6, 7, 8, 9, 15, 16, 17, 31, 32, 33, 64, 100, 257}
	}
	rounds := c.Pick(1, 4)

	// ---------- A. keys with a known trapdoor: prover output and verdicts decided on scalars ----------
	// rel: the single-proof relation c.s + p.g = 0
	rel := func(cc, p, g, s *big.Int) bool { return e.add(e.mul(cc, s), e.mul(p, g)).Sign() == 0 }
	single := func(kind string, cc, p, g, s *big.Int) {
		want := rel(cc, p, g, s)
		vk := e.in.PedNewVK(e.P2(g), e.P2(s))
		e.verdict(opV, kind, false, want, func() string {
			return fmt.Sprintf("C=[%s]G1 pok=[%s]G1 vk.G=[%s]G2 vk.GSigmaNeg=[%s]G2; c*s+p*g mod r = %s", cc.Text(16), p.Text(16), g.Text(16), s.Text(16), e.add(e.mul(cc, s), e.mul(p, g)).Text(16))
		}, func() error { return e.in.PedVerify(vk, e.P1(cc), e.P1(p)) })
	}
	for _, n := range sizes {
		for round := 0; round < rounds; round++ {
			k := e.newPedKey(n, e.scalar())
			s := e.neg(e.mul(k.sigma, k.g))
			var lastC, lastP *big.Int
			for _, class := range []string{"zeros", "unit", "max", "sparse", "small", "random"} {
				if n > 40 && (class == "max" || class == "small") {
					continue
				}
				vals := e.values(class, n)
				cc := e.dot(vals, k.b)
				p := e.mul(cc, k.sigma)
				var C, Pi any
				var err1, err2 error
				desc := func() string {
					return fmt.Sprintf("trapdoor key n=%d sigma=%s values=%s c=%s", n, short(k.sigma), class, short(cc))
				}
				if c.Guard(pkg+"/Commit/panic", desc, func() { C, err1 = e.in.PedCommit(k.pk, vals); Pi, err2 = e.in.PedProve(k.pk, vals) }) {
					continue
				}
				c.Check("Commit", pkg+"/Commit/differs-from-definition", err1 == nil && e.in.Eq1(C, e.P1(cc)), func() string { return desc() + fmt.Sprintf(" err=%v: C != [sum v_j b_j]G1", err1) })
				c.Check("ProveKnowledge", pkg+"/ProveKnowledge/differs-from-definition", err2 == nil && e.in.Eq1(Pi, e.P1(p)), func() string { return desc() + fmt.Sprintf(" err=%v: pok != [sigma*c]G1", err2) })
				if err1 != nil || err2 != nil {
					continue
				}
				e.honest(opV, fmt.Sprintf("values-%s/n=%s", class, sizeClass(n)), desc, func() error { return e.in.PedVerify(k.vk, C, Pi) })
				lastC, lastP = cc, p
			}
			// wrong number of values must be refused by the prover, not silently truncated
			if n > 1 && round == 0 {
				for _, m := range []int{n - 1, n + 1} {
					var err1, err2 error
					vals := e.values("random", m)
					if !c.Guard(pkg+"/Commit/panic/wrong-length", func() string { return fmt.Sprintf("n=%d values=%d", n, m) }, func() { _, err1 = e.in.PedCommit(k.pk, vals); _, err2 = e.in.PedProve(k.pk, vals) }) {
						c.Check("Commit", pkg+"/Commit/wrong-length-accepted", err1 != nil && err2 != nil, func() string {
							return fmt.Sprintf("basis n=%d, %d values: Commit err=%v ProveKnowledge err=%v", n, m, err1, err2)
						})
					}
				}
			}
			if lastC == nil || lastC.Sign() == 0 {
				continue
			}
			cc, p := lastC, lastP
			if round > 0 && n > 9 {
				continue // the forgeries do not depend on n beyond the statement (c, p): all of them at small n, one round at larger n
			}
			// ---- targeted forgeries, one verifier check each (relation / subgroup / curve membership) ----
			d := e.scalar()
			one := big.NewInt(1)
			single("honest-by-scalars", cc, p, k.g, s)
			single("pok-shifted-random", cc, e.add(p, d), k.g, s)
			single("pok-shifted-by-generator", cc, e.add(p, one), k.g, s)
			single("pok-shifted-by-minus-generator", cc, e.sub(p, one), k.g, s)
			single("commitment-shifted-random", e.add(cc, d), p, k.g, s)
			single("commitment-shifted-by-generator", e.add(cc, one), p, k.g, s)
			c2 := e.other(cc)
			single("pok-of-another-commitment", cc, e.mul(c2, k.sigma), k.g, s)
			sig2 := e.other(k.sigma)
			single("pok-under-another-sigma", cc, e.mul(cc, sig2), k.g, s)
			single("pok-negated", cc, e.neg(p), k.g, s)
			single("commitment-and-pok-swapped", p, cc, k.g, s)
			kk := e.other(one)
			single("commitment-scaled", e.mul(cc, kk), p, k.g, s)
			single("pok-scaled", cc, e.mul(p, kk), k.g, s)
			single("both-scaled-same-factor", e.mul(cc, kk), e.mul(p, kk), k.g, s) // still a valid pair
			single("pok-identity", cc, new(big.Int), k.g, s)
			single("commitment-identity", new(big.Int), p, k.g, s)
			single("both-identity", new(big.Int), new(big.Int), k.g, s) // 0 = sigma.0 holds
			single("pok-is-commitment", cc, cc, k.g, s)
			single("vk-of-another-sigma", cc, p, k.g, e.neg(e.mul(sig2, k.g)))
			single("vk-sigma-not-negated", cc, p, k.g, e.mul(k.sigma, k.g))
			single("vk-G-rescaled-only", cc, p, e.mul(k.g, kk), s)
			single("vk-both-rescaled", cc, p, e.mul(k.g, kk), e.mul(s, kk)) // same key
			single("vk-components-swapped", cc, p, s, k.g)
			for i := 0; i < c.Pick(2, 6); i++ {
				single("all-components-random", e.scalar(), e.scalar(), e.scalar(), e.scalar())
			}
			C, Pi := e.P1(cc), e.P1(p)
			pts := func(kind string, C2, P2 any) {
				e.forged(opV, kind, func() string {
					return fmt.Sprintf("honest (C=[%s]G1, pok=[%s]G1) under sigma=%s, then %s", cc.Text(16), p.Text(16), k.sigma.Text(16), kind)
				}, func() error { return e.in.PedVerify(k.vk, C2, P2) })
			}
			if e.t1 != nil {
				pts("commitment-plus-cofactor-torsion", oadd(e.g1, C, e.t1), Pi)
				pts("pok-plus-cofactor-torsion", C, oadd(e.g1, Pi, e.t1))
				pts("both-plus-cofactor-torsion", oadd(e.g1, C, e.t1), oadd(e.g1, Pi, e.t1))
				pts("commitment-is-torsion-point-pok-identity", e.t1, e.in.Inf1())
			} else {
				c.Class(opV + "/not-applicable/cofactor-1")
			}
			pts("commitment-off-curve", offCurve(e.g1, C), Pi)
			pts("pok-off-curve", C, offCurve(e.g1, Pi))
		}
	}

	// ---------- B. keys from the library's Setup (sigma unknown): honest flow + single-field substitutions ----------
	type stmt struct{ C, Pi any }
	for si, n := range sizes {
		if n > 64 && !c.Thorough() {
			continue
		}
		nb := 1 + si%3
		var g2opt any
		var gk *big.Int
		if si%2 == 1 {
			gk = e.scalar()
			g2opt = e.P2(gk)
		}
		lens := make([]int, nb)
		bsc := make([][]*big.Int, nb)
		bases := make([][]any, nb)
		for i := range bases {
			lens[i] = n
			if i > 0 {
				lens[i] = 1 + e.rng.Intn(n+2)
			}
			bsc[i] = e.scalars(lens[i])
			bases[i] = e.P1s(bsc[i])
		}
		var pks []any
		var vk any
		var err error
		descS := func() string { return fmt.Sprintf("Setup(bases of %v, WithG2Point=%v)", lens, g2opt != nil) }
		if c.Guard(pkg+"/Setup/panic", descS, func() { pks, vk, err = e.in.PedSetup(bases, g2opt) }) {
			continue
		}
		if !c.Check("Setup", pkg+"/Setup/error", err == nil && len(pks) == nb, func() string { return descS() + fmt.Sprintf(" err=%v keys=%d", err, len(pks)) }) {
			continue
		}
		G, _ := e.in.PedVK(vk)
		if g2opt != nil {
			c.Check("Setup", pkg+"/Setup/WithG2Point-ignored", e.in.Eq2(G, g2opt), descS)
		}
		c.Check("Setup", pkg+"/Setup/G-is-identity", !e.in.Eq2(G, e.in.Inf2()), descS)
		var st []stmt
		var vals [][]*big.Int
		okAll := true
		for i, pk := range pks {
			basis, _ := e.in.PedPK(pk)
			same := len(basis) == lens[i]
			for j := 0; same && j < len(basis); j++ {
				same = e.in.Eq1(basis[j], bases[i][j])
			}
			c.Check("Setup", pkg+"/Setup/basis-changed", same, descS)
			v := e.values("random", lens[i])
			var C, Pi any
			var e1, e2 error
			if c.Guard(pkg+"/Commit/panic", descS, func() { C, e1 = e.in.PedCommit(pk, v); Pi, e2 = e.in.PedProve(pk, v) }) || e1 != nil || e2 != nil {
				c.Check("Commit", pkg+"/Commit/error", false, func() string { return descS() + fmt.Sprintf(" Commit err=%v ProveKnowledge err=%v", e1, e2) })
				okAll = false
				break
			}
			cc := e.dot(v, bsc[i])
			c.Check("Commit", pkg+"/Commit/differs-from-definition", e.in.Eq1(C, e.P1(cc)), func() string { return descS() + fmt.Sprintf(" basis %d: C != [sum v_j b_j]G1", i) })
			e.honest(opV, fmt.Sprintf("library-setup/values-random/n=%s", sizeClass(lens[i])), descS, func() error { return e.in.PedVerify(vk, C, Pi) })
			st = append(st, stmt{C, Pi})
			vals = append(vals, v)
			// the key pair itself: (B_j, sigma B_j) is the proof for the unit vector
			_, bsig := e.in.PedPK(pk)
			for _, j := range []int{0, lens[i] - 1} {
				e.honest(opV, "library-setup/basis-element-with-its-sigma-multiple", descS, func() error { return e.in.PedVerify(vk, basis[j], bsig[j]) })
			}
		}
		if !okAll {
			continue
		}
		// single-field substitutions of (C, pi): identity, random, from another honest proof, shifted by a constant
		C0, P0 := st[0].C, st[0].Pi
		v2 := e.values("random", lens[0])
		Cx, _ := e.in.PedCommit(pks[0], v2)
		Px, _ := e.in.PedProve(pks[0], v2)
		sub := func(kind string, C, Pi any) {
			e.forged(opV, "library-setup/substitution/"+kind, func() string { return descS() + " honest (C, pok) with " + kind }, func() error { return e.in.PedVerify(vk, C, Pi) })
		}
		sub("commitment:=identity", e.in.Inf1(), P0)
		sub("pok:=identity", C0, e.in.Inf1())
		sub("commitment:=random-point", e.P1(e.scalar()), P0)
		sub("pok:=random-point", C0, e.P1(e.scalar()))
		sub("commitment:=from-another-honest-proof", Cx, P0)
		sub("pok:=from-another-honest-proof", C0, Px)
		sub("commitment:=shifted-by-generator", oadd(e.g1, C0, e.in.Gen1), P0)
		sub("pok:=shifted-by-generator", C0, oadd(e.g1, P0, e.in.Gen1))
		// ---- batch with ONE sigma: BatchProve + Fold + Verify, and BatchVerifyMultiVk with nb copies of vk ----
		rho := e.scalar()
		rho2 := e.other(rho)
		var Pf, Pf2, Cf, Cf2 any
		var e1, e2, e3, e4 error
		if c.Guard(pkg+"/BatchProve/panic", descS, func() {
			Pf, e1 = e.in.PedBatchProve(pks, vals, rho)
			Pf2, e2 = e.in.PedBatchProve(pks, vals, rho2)
			cs := make([]any, nb)
			for i := range st {
				cs[i] = st[i].C
			}
			Cf, e3 = e.in.Fold1(cs, rho)
			Cf2, e4 = e.in.Fold1(cs, rho2)
		}) || e1 != nil || e2 != nil || e3 != nil || e4 != nil {
			c.Check("BatchProve", pkg+"/BatchProve/error", false, func() string { return descS() + fmt.Sprint(" errors: ", e1, e2, e3, e4) })
			continue
		}
		dB := func() string {
			return descS() + fmt.Sprintf(" batch of %d commitments, coefficient %s", nb, short(rho))
		}
		e.honest(opV, fmt.Sprintf("library-setup/batch-proof-with-folded-commitment/k=%d", nb), dB, func() error { return e.in.PedVerify(vk, Cf, Pf) })
		if nb > 1 {
			e.forged(opV, "library-setup/folded-commitment-with-another-coefficient", dB, func() error { return e.in.PedVerify(vk, Cf2, Pf) })
			e.forged(opV, "library-setup/batch-proof-with-another-coefficient", dB, func() error { return e.in.PedVerify(vk, Cf, Pf2) })
		}
		vks, cs, ps := make([]any, nb), make([]any, nb), make([]any, nb)
		for i := range st {
			vks[i], cs[i], ps[i] = vk, st[i].C, st[i].Pi
		}
		e.honest(opB, fmt.Sprintf("library-setup/separate-proofs/k=%d", nb), dB, func() error { return e.in.PedBatchVerify(vks, cs, ps, rho) })
		e.honest(opB, fmt.Sprintf("library-setup/folded-proof/k=%d", nb), dB, func() error { return e.in.PedBatchVerify(vks, cs, []any{Pf}, rho) })
		if nb > 1 {
			e.forged(opB, "library-setup/folded-proof-with-another-coefficient", dB, func() error { return e.in.PedBatchVerify(vks, cs, []any{Pf2}, rho) })
			sw := append([]any(nil), ps...)
			sw[0], sw[1] = sw[1], sw[0]
			e.forged(opB, "library-setup/proofs-swapped", dB, func() error { return e.in.PedBatchVerify(vks, cs, sw, rho) })
		}
		// points of the curve outside G1 (commitment or proof shifted by a point of cofactor order) are not
		// commitments: the pairing cannot see the shift, only the subgroup checks can - at every position and in
		// both modes (one proof per commitment, one folded proof)
		if e.t1 != nil {
			for _, i := range []int{0, 1, nb - 1} {
				if i >= nb || (i == 1 && nb-1 == 1) {
					continue
				}
				ct := append([]any(nil), cs...)
				ct[i] = oadd(e.g1, cs[i], e.t1)
				pt := append([]any(nil), ps...)
				pt[i] = oadd(e.g1, ps[i], e.t1)
				e.forged(opB, fmt.Sprintf("library-setup/separate-proofs/commitment-plus-cofactor-torsion/at=%s", posClass(i, nb)), dB, func() error { return e.in.PedBatchVerify(vks, ct, ps, rho) })
				e.forged(opB, fmt.Sprintf("library-setup/folded-proof/commitment-plus-cofactor-torsion/at=%s", posClass(i, nb)), dB, func() error { return e.in.PedBatchVerify(vks, ct, []any{Pf}, rho) })
				e.forged(opB, fmt.Sprintf("library-setup/separate-proofs/pok-plus-cofactor-torsion/at=%s", posClass(i, nb)), dB, func() error { return e.in.PedBatchVerify(vks, cs, pt, rho) })
			}
			e.forged(opB, "library-setup/folded-proof/pok-plus-cofactor-torsion", dB, func() error { return e.in.PedBatchVerify(vks, cs, []any{oadd(e.g1, Pf, e.t1)}, rho) })
			e.forged(opV, "library-setup/commitment-plus-cofactor-torsion", dB, func() error { return e.in.PedVerify(vk, oadd(e.g1, Cf, e.t1), Pf) })
			e.forged(opV, "library-setup/pok-plus-cofactor-torsion", dB, func() error { return e.in.PedVerify(vk, Cf, oadd(e.g1, Pf, e.t1)) })
		}
	}

	// ---------- C. BatchVerifyMultiVk with several trapdoor keys sharing G ----------
	ks := []int{1, 2, 3, 5}
	if c.Thorough() {
		ks = []int{1, 2, 3, 4, 5, 8, 16}
	}
	for _, k := range ks {
		for round := 0; round < rounds; round++ {
			e.pedersenMulti(opB, pkg, k, round)
		}
	}
	// empty batch: BatchProve documents "nothing to do at all"; the verifier must not crash on it
	for _, np := range []int{0, 1} {
		poks := []any{}
		if np == 1 {
			poks = append(poks, e.in.Inf1())
		}
		c.Eval(opB, 1)
		c.Class(opB + fmt.Sprintf("/empty-batch/poks=%d", np))
		c.Guard(opB+"/panic/empty-batch", func() string {
			return fmt.Sprintf("BatchVerifyMultiVk(vk=[], commitments=[], pok=%d element(s), coeff): BatchProve accepts zero keys and returns the identity", np)
		}, func() { _ = e.in.PedBatchVerify(nil, nil, poks, e.scalar()) })
	}
}

func sizeClass(n int) string {
	switch {
	case n <= 3:
		return fmt.Sprint(n)
	case n&(n-1) == 0:
		return "pow2"
	case n < 10:
		return "small-odd"
	default:
		return "large-non-pow2"
	}
}

// pedersenMulti: k keys (g, sigma_i), statements (c_i, p_i = sigma_i c_i), coefficient rho.
func (e *env) pedersenMulti(opB, pkg string, k, round int) {
	c := e.c
	g := e.scalar()
	keys := make([]*pedKey, k)
	vals := make([][]*big.Int, k)
	cs, ps, ss := make([]*big.Int, k), make([]*big.Int, k), make([]*big.Int, k)
	pks, vks := make([]any, k), make([]any, k)
	for i := range keys {
		keys[i] = e.newPedKey(1+e.rng.Intn(4), g)
		vals[i] = e.values("random", len(keys[i].b))
		cs[i] = e.dot(vals[i], keys[i].b)
		if cs[i].Sign() == 0 {
			cs[i] = big.NewInt(1) // cannot happen for random values; keeps the forgeries meaningful
		}
		ps[i] = e.mul(cs[i], keys[i].sigma)
		ss[i] = e.neg(e.mul(keys[i].sigma, g))
		pks[i], vks[i] = keys[i].pk, keys[i].vk
	}
	rhos := []struct {
		name string
		v    *big.Int
	}{{"random", e.scalar()}}
	if round == 0 {
		rhos = append(rhos, struct {
			name string
			v    *big.Int
		}{"one", big.NewInt(1)}, struct {
			name string
			v    *big.Int
		}{"zero", new(big.Int)})
		if c.Thorough() {
			rhos = append(rhos, struct {
				name string
				v    *big.Int
			}{"minus-one", new(big.Int).Sub(e.r, big.NewInt(1))})
		}
	}
	// relation on scalars; p has k entries or 1 (already folded)
	rel := func(cs, ps, ss []*big.Int, rho *big.Int) *big.Int {
		acc := new(big.Int)
		pw := big.NewInt(1)
		for i := range cs {
			acc = e.add(acc, e.mul(pw, e.mul(cs[i], ss[i])))
			if len(ps) == len(cs) {
				acc = e.add(acc, e.mul(pw, e.mul(ps[i], g)))
			}
			pw = e.mul(pw, rho)
		}
		if len(ps) != len(cs) {
			acc = e.add(acc, e.mul(ps[0], g))
		}
		return acc
	}
	fold := func(ps []*big.Int, rho *big.Int) *big.Int {
		acc, pw := new(big.Int), big.NewInt(1)
		for i := range ps {
			acc = e.add(acc, e.mul(pw, ps[i]))
			pw = e.mul(pw, rho)
		}
		return acc
	}
	cp := func(a []*big.Int) []*big.Int { return append([]*big.Int(nil), a...) }
	for _, rh := range rhos {
		rho := rh.v
		// honest: library prover, separate and folded
		Cs, Ps := make([]any, k), make([]any, k)
		bad := false
		for i := range keys {
			var e1, e2 error
			Cs[i], e1 = e.in.PedCommit(pks[i], vals[i])
			Ps[i], e2 = e.in.PedProve(pks[i], vals[i])
			bad = bad || e1 != nil || e2 != nil
		}
		var Pf any
		var ef error
		desc := func() string {
			return fmt.Sprintf("k=%d keys with common G=[%s]G2, coefficient %s=%s", k, short(g), rh.name, short(rho))
		}
		if c.Guard(pkg+"/BatchProve/panic", desc, func() { Pf, ef = e.in.PedBatchProve(pks, vals, rho) }) || bad || ef != nil {
			c.Check("BatchProve", pkg+"/BatchProve/error", false, func() string { return desc() + fmt.Sprint(" err=", ef) })
			continue
		}
		c.Check("BatchProve", pkg+"/BatchProve/differs-from-definition", e.in.Eq1(Pf, e.P1(fold(ps, rho))), func() string { return desc() + ": folded pok != [sum rho^i sigma_i c_i]G1" })
		e.honest(opB, fmt.Sprintf("separate-proofs/k=%d/rho-%s", k, rh.name), desc, func() error { return e.in.PedBatchVerify(vks, Cs, Ps, rho) })
		e.honest(opB, fmt.Sprintf("folded-proof/k=%d/rho-%s", k, rh.name), desc, func() error { return e.in.PedBatchVerify(vks, Cs, []any{Pf}, rho) })

		// forgeries / relation cases on scalars
		run := func(kind string, cs2, ps2, ss2 []*big.Int, rho2 *big.Int) {
			v := rel(cs2, ps2, ss2, rho2)
			vk2 := make([]any, len(ss2))
			for i := range ss2 {
				vk2[i] = e.in.PedNewVK(e.P2(g), e.P2(ss2[i]))
			}
			e.verdict(opB, kind+"/rho-"+rh.name, false, v.Sign() == 0, func() string {
				return desc() + fmt.Sprintf(" %s: c=%v p=%v s=%v -> relation value %s", kind, hexs(cs2), hexs(ps2), hexs(ss2), v.Text(16))
			}, func() error { return e.in.PedBatchVerify(vk2, e.P1s(cs2), e.P1s(ps2), rho2) })
		}
		d := e.scalar()
		run("honest-by-scalars", cs, ps, ss, rho)
		run("honest-folded-by-scalars", cs, []*big.Int{fold(ps, rho)}, ss, rho)
		idx := []int{0, k - 1}
		if k > 2 {
			idx = append(idx, 1)
		}
		for _, i := range idx {
			t := cp(ps)
			t[i] = e.add(t[i], d)
			run(fmt.Sprintf("pok-shifted/%s", posClass(i, k)), cs, t, ss, rho)
			t = cp(cs)
			t[i] = e.add(t[i], d)
			run(fmt.Sprintf("commitment-shifted/%s", posClass(i, k)), t, ps, ss, rho)
			t = cp(ps)
			t[i] = new(big.Int)
			run(fmt.Sprintf("pok-identity/%s", posClass(i, k)), cs, t, ss, rho)
			t = cp(ss)
			t[i] = e.neg(e.mul(e.other(keys[i].sigma), g))
			run(fmt.Sprintf("vk-of-another-sigma/%s", posClass(i, k)), cs, ps, t, rho)
			if k == 1 {
				break
			}
		}
		run("folded-proof-shifted", cs, []*big.Int{e.add(fold(ps, rho), d)}, ss, rho)
		if k > 1 {
			rho2 := e.other(rho)
			run("folded-proof-for-another-coefficient", cs, []*big.Int{fold(ps, rho2)}, ss, rho)
			run("verified-with-another-coefficient", cs, ps, ss, rho2)
			t := cp(ps)
			t[0], t[1] = t[1], t[0]
			run("proofs-swapped", cs, t, ss, rho)
			t = cp(cs)
			t[0], t[k-1] = t[k-1], t[0]
			run("commitments-swapped", t, ps, ss, rho)
			t = cp(ss)
			t[0], t[k-1] = t[k-1], t[0]
			run("keys-swapped", cs, ps, t, rho)
			if rho.Sign() != 0 {
				// two errors that cancel in the folded equation: the relation (for THIS coefficient) holds
				t = cp(ps)
				t[0] = e.add(t[0], d)
				t[1] = e.sub(t[1], e.mul(d, e.inv(rho)))
				run("two-proofs-shifted-cancelling-for-this-coefficient", cs, t, ss, rho)
				t = cp(ps)
				t[0] = e.add(t[0], d)
				t[1] = e.sub(t[1], d)
				if rho.Cmp(big.NewInt(1)) != 0 {
					run("two-proofs-shifted-by-opposite-amounts", cs, t, ss, rho)
				}
			}
		}
		// malformed shapes: must be refused
		shape := func(kind string, vk2, c2, p2 []any) {
			e.forged(opB, kind, func() string {
				return desc() + fmt.Sprintf(" %s: %d keys, %d commitments, %d proofs", kind, len(vk2), len(c2), len(p2))
			}, func() error { return e.in.PedBatchVerify(vk2, c2, p2, rho) })
		}
		if k >= 3 {
			shape("one-proof-missing", vks, Cs, Ps[:k-1])
		}
		shape("one-proof-too-many", vks, Cs, append(append([]any(nil), Ps...), Ps[0]))
		if k >= 2 {
			shape("one-commitment-missing", vks, Cs[:k-1], Ps)
			shape("one-key-missing", vks[:k-1], Cs, Ps)
			shape("no-proof", vks, Cs, nil)
			// a key with another G (valid on its own): the documented precondition "same G2 point" must be enforced
			g2 := e.other(g)
			j := k - 1
			vk2 := append([]any(nil), vks...)
			vk2[j] = e.in.PedNewVK(e.P2(g2), e.P2(e.neg(e.mul(keys[j].sigma, g2))))
			shape("key-with-another-G", vk2, Cs, Ps)
			// the same, with GSigmaNeg left as it was: the folded equation (which only uses vks[0].G) still holds,
			// so only the comparison of the G components can refuse it
			vk3 := append([]any(nil), vks...)
			vk3[j] = e.in.PedNewVK(e.P2(g2), e.P2(ss[j]))
			shape("key-with-another-G-same-GSigmaNeg", vk3, Cs, Ps)
		}
		if e.t1 != nil {
			j := k - 1
			t := append([]any(nil), Cs...)
			t[j] = oadd(e.g1, t[j], e.t1)
			shape(fmt.Sprintf("commitment-plus-cofactor-torsion/%s", posClass(j, k)), vks, t, Ps)
			t = append([]any(nil), Ps...)
			t[j] = oadd(e.g1, t[j], e.t1)
			shape(fmt.Sprintf("pok-plus-cofactor-torsion/%s", posClass(j, k)), vks, Cs, t)
			shape("folded-pok-plus-cofactor-torsion", vks, Cs, []any{oadd(e.g1, Pf, e.t1)})
			if k > 1 {
				t = append([]any(nil), Cs...)
				t[0] = oadd(e.g1, t[0], e.t1)
				shape("commitment-plus-cofactor-torsion/first", vks, t, Ps)
			}
		}
		t := append([]any(nil), Cs...)
		t[k-1] = offCurve(e.g1, t[k-1])
		shape("commitment-off-curve", vks, t, Ps)
		t = append([]any(nil), Ps...)
		t[0] = offCurve(e.g1, t[0])
		shape("pok-off-curve", vks, Cs, t)
	}
}

func posClass(i, k int) string {
	switch {
	case i == 0:
		return "first"
	case i == k-1:
		return "last"
	}
	return "middle"
}

func hexs(a []*big.Int) string {
	s := "["
	for i, x := range a {
		if i > 0 {
			s += " "
		}
		s += x.Text(16)
	}
	return s + "]"
}
