package main

import (
	"fmt"
	"reflect"
	"strings"
	"unsafe"
)

// Reflection over the library's proof structs. Their fields are unexported; the forger writes them through
// reflect.NewAt(type, UnsafeAddr) (no shim in the library is needed).

// rw returns a settable alias of an addressable value (also for unexported fields).
func rw(v reflect.Value) reflect.Value {
	return reflect.NewAt(v.Type(), unsafe.Pointer(v.UnsafeAddr())).Elem()
}

// field follows a dotted path of struct field names / [i] indices from the struct ptr points to.
func field(ptr any, path string) reflect.Value {
	v := reflect.ValueOf(ptr).Elem()
	for _, step := range strings.Split(path, ".") {
		name, idx := step, -1
		if i := strings.IndexByte(step, '['); i >= 0 {
			name = step[:i]
			fmt.Sscanf(step[i:], "[%d]", &idx)
		}
		if name != "" {
			f := v.FieldByName(name)
			if !f.IsValid() {
				panic("c17a: no field " + name + " in " + v.Type().String() + " (path " + path + ")")
			}
			v = rw(f)
		}
		if idx >= 0 {
			v = v.Index(idx)
		}
	}
	return v
}

func hasKind(t reflect.Type, pred func(reflect.Type) bool, seen map[reflect.Type]bool) bool {
	if pred(t) {
		return true
	}
	if seen[t] {
		return false
	}
	seen[t] = true
	switch t.Kind() {
	case reflect.Struct:
		for i := 0; i < t.NumField(); i++ {
			if hasKind(t.Field(i).Type, pred, seen) {
				return true
			}
		}
	case reflect.Slice, reflect.Array, reflect.Pointer:
		return hasKind(t.Elem(), pred, seen)
	}
	return false
}

// deepCopy returns a pointer to an independent copy of *ptr (slices at any depth are re-allocated).
func deepCopy(ptr any) any {
	src := reflect.ValueOf(ptr).Elem()
	dst := reflect.New(src.Type())
	dst.Elem().Set(src)
	isSlice := func(t reflect.Type) bool { return t.Kind() == reflect.Slice }
	var fix func(v reflect.Value)
	fix = func(v reflect.Value) {
		t := v.Type()
		if !hasKind(t, isSlice, map[reflect.Type]bool{}) {
			return
		}
		switch t.Kind() {
		case reflect.Slice:
			if v.IsNil() {
				return
			}
			n := reflect.MakeSlice(t, v.Len(), v.Len())
			reflect.Copy(n, v)
			v.Set(n)
			for i := 0; i < v.Len(); i++ {
				fix(v.Index(i))
			}
		case reflect.Array:
			for i := 0; i < v.Len(); i++ {
				fix(v.Index(i))
			}
		case reflect.Struct:
			for i := 0; i < v.NumField(); i++ {
				fix(rw(v.Field(i)))
			}
		case reflect.Pointer:
			panic("c17a: deepCopy does not follow pointers (none expected in proof structs)")
		}
	}
	fix(dst.Elem())
	return dst.Interface()
}

// leaf is one substitutable component of a proof struct.
type leaf struct {
	path string
	kind string // "g1", "g2", "bytes", "opaque" (no group element / byte string inside)
	v    reflect.Value
}

// leaves enumerates every G1 point, G2 point and byte string of *ptr, with its path; aggregates that contain
// none of them are returned as one opaque leaf.
func leaves(ptr any, t1, t2 reflect.Type) []leaf {
	isLeaf := func(t reflect.Type) bool {
		return t == t1 || t == t2 || (t.Kind() == reflect.Slice && t.Elem().Kind() == reflect.Uint8)
	}
	var out []leaf
	var walk func(v reflect.Value, path string)
	walk = func(v reflect.Value, path string) {
		t := v.Type()
		switch {
		case t == t1:
			out = append(out, leaf{path, "g1", v})
		case t == t2:
			out = append(out, leaf{path, "g2", v})
		case t.Kind() == reflect.Slice && t.Elem().Kind() == reflect.Uint8:
			out = append(out, leaf{path, "bytes", v})
		case !hasKind(t, isLeaf, map[reflect.Type]bool{}):
			out = append(out, leaf{path, "opaque", v})
		case t.Kind() == reflect.Struct:
			for i := 0; i < t.NumField(); i++ {
				p := t.Field(i).Name
				if path != "" {
					p = path + "." + p
				}
				walk(rw(v.Field(i)), p)
			}
		case t.Kind() == reflect.Slice || t.Kind() == reflect.Array:
			for i := 0; i < v.Len(); i++ {
				walk(v.Index(i), fmt.Sprintf("%s[%d]", path, i))
			}
		default:
			out = append(out, leaf{path, "opaque", v})
		}
	}
	walk(reflect.ValueOf(ptr).Elem(), "")
	return out
}

// getPt copies a point-typed value into a fresh handle (*G1Affine / *G2Affine as any).
func getPt(v reflect.Value) any {
	p := reflect.New(v.Type())
	p.Elem().Set(v)
	return p.Interface()
}

// setPt writes the point a handle denotes into a point-typed value.
func setPt(v reflect.Value, h any) { v.Set(reflect.ValueOf(h).Elem()) }
