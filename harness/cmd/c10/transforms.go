package main

import (
	"fmt"
	"math/big"

	"verif/harness/adapt/ffts"
	"verif/harness/gen"
	"verif/harness/oracle/odft"
)

type nbOpt struct {
	nb  int
	set bool // false: no WithNbTasks option (library default = runtime.NumCPU())
}

func (o nbOpt) String() string {
	if !o.set {
		return "default"
	}
	return fmt.Sprint(o.nb)
}

var nbFull = []nbOpt{{0, false}, {1, true}, {2, true}, {3, true}, {4, true}, {5, true}, {7, true}, {8, true}, {16, true}, {17, true}, {64, true}, {512, true}}
var nbLight = []nbOpt{{0, false}, {1, true}, {3, true}, {16, true}, {512, true}}
var nbPar = []nbOpt{{0, false}, {2, true}, {3, true}, {7, true}, {16, true}, {512, true}}

type sizeSpec struct {
	lg    int
	light bool // few vectors, few task counts
}

func (e *env[E, P, D, T]) sizes() []sizeSpec {
	var out []sizeSpec
	add := func(lg int, light bool) {
		if lg > e.k {
			return
		}
		for _, s := range out {
			if s.lg == lg {
				return
			}
		}
		out = append(out, sizeSpec{lg, light})
	}
	th := e.c.Thorough()
	switch e.mode {
	case "main":
		for lg := 0; lg <= e.c.Pick(11, 16); lg++ {
			add(lg, false)
		}
		if th {
			for lg := 17; lg <= 20; lg++ {
				add(lg, true)
			}
			if e.k <= 24 && e.A.Modulus().BitLen() <= 64 {
				add(e.k, true) // the largest domain of the field (koalabear: 2^24; bw6-633: 2^20 is in the list above)
			}
		} else {
			add(12, true)
			add(13, true)
			add(14, true)
		}
	case "light":
		top := e.c.Pick(11, 13)
		if e.A.Modulus().BitLen() <= 64 {
			top = e.c.Pick(13, 16) // the fields with their own portable kernels
		}
		for lg := 0; lg <= top; lg++ {
			add(lg, true)
		}
	case "sched":
		for _, lg := range []int{2, 5, 6, 7, 8, 9, 11} {
			add(lg, true)
		}
		if gomaxprocs > 1 || th {
			add(13, true)
		}
		if th {
			add(12, true)
			add(14, true)
			if gomaxprocs > 1 {
				add(16, true)
			}
		}
	case "race":
		for _, lg := range []int{1, 3, 5, 6, 8, 9, 11} {
			add(lg, true)
		}
		if th {
			add(12, true)
			add(14, true)
		}
	}
	return out
}

func (e *env[E, P, D, T]) transforms() {
	for _, sz := range e.sizes() {
		if sz.lg >= 17 {
			heavy <- struct{}{}
		}
		for _, custom := range []bool{false, true} {
			if custom && sz.lg >= 18 {
				continue
			}
			e.cell(sz, custom)
		}
		if sz.lg >= 17 {
			<-heavy
		}
	}
}

type vecT[T any] struct {
	name string
	cls  string // basis | dense | extreme
	x    []T
	full bool // run the full task-count list on this vector
	bj   int  // index of the single non-zero entry of a basis vector, -1 otherwise
	lam  T    // its value
}

// vectors returns the seeded input vectors of one cell (natural order, oracle values).
func (e *env[E, P, D, T]) vectors(rng *gen.Rng, sz sizeSpec) []vecT[T] {
	A := e.A
	n := 1 << sz.lg
	zero := func() []T {
		v := make([]T, n)
		for i := range v {
			v[i] = A.Zero()
		}
		return v
	}
	qm1 := A.Sub(A.Zero(), A.One())
	var out []vecT[T]
	basis := func(j int, lam T, lname string, full bool) {
		v := zero()
		v[j] = lam
		out = append(out, vecT[T]{fmt.Sprintf("%s*e_%d", lname, j), "basis", v, full, j, lam})
	}
	dense := func(name, cls string, full bool, f func(i int) T) {
		v := make([]T, n)
		for i := range v {
			v[i] = f(i)
		}
		out = append(out, vecT[T]{name, cls, v, full, -1, A.Zero()})
	}
	allBasisUpTo := e.c.Pick(64, 256)
	switch {
	case sz.light:
		dense("random#0", "dense", true, func(int) T { return e.rnd(rng) })
		if n > 1 {
			lam := e.rndNonZero(rng)
			basis(1, lam, e.hx(lam), false)
			if e.mode != "race" || e.c.Thorough() {
				dense("all(q-1)", "extreme", false, func(int) T { return qm1 })
				basis(n-1, A.One(), "1", false)
			}
		}
	case n <= allBasisUpTo:
		for j := 0; j < n; j++ {
			basis(j, A.One(), "1", j == n/2)
		}
		lam := e.rndNonZero(rng)
		basis(rng.Intn(n), lam, e.hx(lam), false)
	default:
		js := map[int]bool{0: true, 1: true, n / 2: true, n - 1: true, n/2 - 1: true}
		for len(js) < 9 {
			js[rng.Intn(n)] = true
		}
		for j := 0; j < n; j++ { // deterministic order
			if js[j] {
				lam, ln := A.One(), "1"
				if j%2 == 1 {
					lam = e.rndNonZero(rng)
					ln = e.hx(lam)
				}
				basis(j, lam, ln, j == n/2)
			}
		}
	}
	if !sz.light {
		dense("random#0", "dense", true, func(int) T { return e.rnd(rng) })
		dense("random#1", "dense", false, func(int) T { return e.rnd(rng) })
		if n > 1 {
			dense("all(q-1)", "extreme", false, func(int) T { return qm1 })
			dense("all(1)", "extreme", false, func(int) T { return A.One() })
			dense("alternating(q-1,0)", "extreme", false, func(i int) T {
				if i%2 == 0 {
					return qm1
				}
				return A.Zero()
			})
			dense("sparse-random", "dense", false, func(i int) T {
				if rng.Intn(4) == 0 {
					return e.rnd(rng)
				}
				if rng.Intn(2) == 0 {
					return qm1
				}
				return A.Zero()
			})
		}
	}
	return out
}

func decName(dit bool) string {
	if dit {
		return "DIT"
	}
	return "DIF"
}
func cosetName(b bool) string {
	if b {
		return "coset"
	}
	return "nocoset"
}
func preName(b bool) string {
	if b {
		return "precomp"
	}
	return "noprecomp"
}

// domCheck validates the exported fields of a fresh domain against the oracle; returns (w, s, ok).
func (e *env[E, P, D, T]) domCheck(d *D, lg int, what string, wantShift *T) (w, s T, ok bool) {
	c, A, N := e.c, e.A, e.N
	n := uint64(1) << uint(lg)
	pub := e.in.Pub(d)
	key := N + "/NewDomain/"
	ok = c.Check("NewDomain", key+"Cardinality-wrong/"+logName(lg), *pub.Cardinality == n, func() string {
		return fmt.Sprintf("%s: Cardinality=%d want %d", what, *pub.Cardinality, n)
	})
	for _, el := range []*E{pub.CardinalityInv, pub.Generator, pub.GeneratorInv, pub.FrMultiplicativeGen, pub.FrMultiplicativeGenInv} {
		ok = c.Check("NewDomain", key+"non-canonical-field/"+logName(lg), e.cv.Canonical(el), func() string { return what + ": raw " + e.cv.Raw(el).Text(16) }) && ok
	}
	w = e.val(pub.Generator)
	ok = c.Check("NewDomain", key+"Generator-not-primitive-root/"+logName(lg), odft.IsPrimitiveRoot(A, w, n), func() string {
		return fmt.Sprintf("%s: Generator=%s does not have order 2^%d", what, e.hx(w), lg)
	}) && ok
	if g, err := e.in.Generator(n); err == nil {
		c.Check("NewDomain", key+"Generator-differs-from-fft.Generator/"+logName(lg), A.Equal(e.val(&g), w), func() string {
			return fmt.Sprintf("%s: Generator=%s, fft.Generator(%d)=%s", what, e.hx(w), n, e.hx(e.val(&g)))
		})
	}
	wi := e.val(pub.GeneratorInv)
	ok = c.Check("NewDomain", key+"GeneratorInv-wrong/"+logName(lg), A.Equal(A.Mul(w, wi), A.One()), func() string {
		return fmt.Sprintf("%s: Generator*GeneratorInv = %s", what, e.hx(A.Mul(w, wi)))
	}) && ok
	ci := e.val(pub.CardinalityInv)
	nn := A.FromBig(new(big.Int).Mod(new(big.Int).SetUint64(n), A.Modulus()))
	ok = c.Check("NewDomain", key+"CardinalityInv-wrong/"+logName(lg), A.Equal(A.Mul(ci, nn), A.One()), func() string {
		return fmt.Sprintf("%s: n*CardinalityInv = %s", what, e.hx(A.Mul(ci, nn)))
	}) && ok
	s = e.val(pub.FrMultiplicativeGen)
	if wantShift != nil {
		ok = c.Check("NewDomain", key+"shift-not-applied/"+logName(lg), A.Equal(s, *wantShift), func() string {
			return fmt.Sprintf("%s: FrMultiplicativeGen=%s, WithShift(%s)", what, e.hx(s), e.hx(*wantShift))
		}) && ok
	} else {
		g := e.in.MulGen()
		ok = c.Check("NewDomain", key+"default-shift-wrong/"+logName(lg), A.Equal(s, e.val(&g)), func() string {
			return fmt.Sprintf("%s: FrMultiplicativeGen=%s, GeneratorFullMultiplicativeGroup()=%s", what, e.hx(s), e.hx(e.val(&g)))
		}) && ok
		// the default coset must be disjoint from the domain: s^n != 1
		ok = c.Check("NewDomain", key+"default-shift-inside-domain/"+logName(lg), !A.Equal(odft.Pow(A, s, n), A.One()), func() string {
			return fmt.Sprintf("%s: FrMultiplicativeGen^n = 1", what)
		}) && ok
	}
	si := e.val(pub.FrMultiplicativeGenInv)
	ok = c.Check("NewDomain", key+"FrMultiplicativeGenInv-wrong/"+logName(lg), A.Equal(A.Mul(s, si), A.One()), func() string {
		return fmt.Sprintf("%s: FrMultiplicativeGen*FrMultiplicativeGenInv = %s", what, e.hx(A.Mul(s, si)))
	}) && ok
	return
}

// powTable returns the canonical elements x^0 .. x^(n-1).
func (e *env[E, P, D, T]) powTable(x T, n int) []E {
	out := make([]E, n)
	p := e.A.One()
	for i := range out {
		out[i] = e.mk(p)
		p = e.A.Mul(p, x)
	}
	return out
}

// tablesCheck: documented content of the precomputed tables (domain.go): twiddles[i] = powers of w^(2^i) for stage i
// (1 + n/2^(i+1) entries), cosetTable = <1,u,u^2,...,u^(n-1)>, the Inv tables with w^-1 and u^-1.
func (e *env[E, P, D, T]) tablesCheck(d *D, lg int, w, s T, what string) {
	c, A, N := e.c, e.A, e.N
	n := 1 << lg
	type tw struct {
		name string
		get  func(*D) ([][]E, error)
		base T
	}
	for _, t := range []tw{{"Twiddles", e.in.Twiddles, w}, {"TwiddlesInv", e.in.TwiddlesInv, odft.Inv(A, w)}} {
		tabs, err := t.get(d)
		key := N + "/" + t.name + "/"
		if lg == 0 {
			// no stage: the library keeps a non-nil empty table or reports "not precomputed"; both carry no information
			continue
		}
		if !c.Check(t.name, key+"error-on-precomputed-domain/"+logName(lg), err == nil && len(tabs) == lg, func() string {
			return fmt.Sprintf("%s: err=%v len=%d want %d stages", what, err, len(tabs), lg)
		}) {
			continue
		}
		b := t.base
		for i := 0; i < lg; i++ {
			want := e.powTable(b, 1+n>>(uint(i)+1))
			c.Eval(t.name, 1)
			if !ffts.RawEqual(tabs[i], want) {
				j := -1
				if len(tabs[i]) == len(want) {
					j = firstDiff(tabs[i], want)
				}
				c.Fail(key+"wrong-content/"+logName(lg), "%s: stage %d len=%d want %d first differing entry %d", what, i, len(tabs[i]), len(want), j)
			}
			b = A.Mul(b, b)
		}
	}
	type ct struct {
		name string
		get  func(*D) ([]E, error)
		base T
	}
	for _, t := range []ct{{"CosetTable", e.in.CosetTable, s}, {"CosetTableInv", e.in.CosetTableInv, odft.Inv(A, s)}} {
		tab, err := t.get(d)
		key := N + "/" + t.name + "/"
		if !c.Check(t.name, key+"error-on-precomputed-domain/"+logName(lg), err == nil, func() string { return fmt.Sprintf("%s: err=%v", what, err) }) {
			continue
		}
		want := e.powTable(t.base, n)
		c.Eval(t.name, 1)
		if !ffts.RawEqual(tab, want) {
			j := -1
			if len(tab) == len(want) {
				j = firstDiff(tab, want)
			}
			c.Fail(key+"wrong-content/"+logName(lg), "%s: len=%d want %d first differing entry %d", what, len(tab), len(want), j)
		}
	}
}

// snapshot of everything observable in a domain (exported fields + tables) for purity checks.
func (e *env[E, P, D, T]) snapshot(d *D) []E {
	pub := e.in.Pub(d)
	var card E
	ffts.SetWords(&card, []uint64{*pub.Cardinality})
	out := []E{card, *pub.CardinalityInv, *pub.Generator, *pub.GeneratorInv, *pub.FrMultiplicativeGen, *pub.FrMultiplicativeGenInv}
	if t, err := e.in.Twiddles(d); err == nil {
		for _, s := range t {
			out = append(out, s...)
		}
	}
	if t, err := e.in.TwiddlesInv(d); err == nil {
		for _, s := range t {
			out = append(out, s...)
		}
	}
	if t, err := e.in.CosetTable(d); err == nil {
		out = append(out, t...)
	}
	if t, err := e.in.CosetTableInv(d); err == nil {
		out = append(out, t...)
	}
	return out
}

// cell: one (size, shift kind): two domains (with / without precomputation) x all vectors x the option matrix.
func (e *env[E, P, D, T]) cell(sz sizeSpec, custom bool) {
	c, A, N := e.c, e.A, e.N
	lg := sz.lg
	n := 1 << lg
	shiftKind := "default-shift"
	if custom {
		shiftKind = "custom-shift"
	}
	rng := gen.New(c.Seed, fmt.Sprintf("c10/%s/%s/%d/%s", e.mode, N, lg, shiftKind))
	var shiftPtr *E
	var wantShift *T
	if custom {
		sv := e.rndNonZero(rng)
		if lg%5 == 4 {
			sv = A.Sub(A.Zero(), A.One()) // -1: a shift inside the subgroup is still a valid WithShift argument
		}
		el := e.mk(sv)
		shiftPtr, wantShift = &el, &sv
	}
	m := uint64(n)
	if custom && lg >= 2 {
		m = uint64(n) - 1 // "cardinality >= m": rounded up to n
	}
	what := fmt.Sprintf("NewDomain(%d,%s)", m, shiftKind)
	c.Current(N + " " + what)
	var dP, dN *D
	if c.Guard(N+"/NewDomain/panic/"+logName(lg), func() string { return what }, func() {
		dP = e.in.NewDomain(m, shiftPtr, true)
		dN = e.in.NewDomain(m, shiftPtr, false)
	}) {
		return
	}
	w, s, ok := e.domCheck(dP, lg, what+"+precompute", wantShift)
	w2, s2, ok2 := e.domCheck(dN, lg, what+"+WithoutPrecompute", wantShift)
	if !ok || !ok2 || !A.Equal(w, w2) || !A.Equal(s, s2) {
		return // already reported; the expected values below are defined through w and s
	}
	if lg <= 14 || (c.Thorough() && !sz.light) {
		e.tablesCheck(dP, lg, w, s, what)
	}
	if lg > 0 {
		_, err := e.in.Twiddles(dN)
		_, err2 := e.in.CosetTable(dN)
		c.Check("Twiddles", N+"/Twiddles/no-error-without-precompute", err != nil && err2 != nil, func() string {
			return what + ": Twiddles()/CosetTable() of a WithoutPrecompute domain returned no error"
		})
	}
	snapP, snapN := e.snapshot(dP), e.snapshot(dN)

	vecs := e.vectors(rng, sz)
	if custom && !sz.light && lg > 10 && !c.Thorough() {
		// quick tier: the custom shift re-runs a third of the vectors at the larger sizes
		var keep []vecT[T]
		for i, v := range vecs {
			if v.full || i%3 == 0 {
				keep = append(keep, v)
			}
		}
		vecs = keep
	}
	buf := e.work(n)
	doms := []struct {
		d   *D
		pre bool
	}{{dP, true}, {dN, false}}
	call := 0
	for _, v := range vecs {
		xNat, xRev := e.lib(v.x), e.lib(odft.Permute(v.x))
		var itPlain []T
		if v.bj < 0 {
			itPlain = odft.FastInterp(A, v.x, w, A.One())
		}
		for _, coset := range []bool{false, true} {
			sh := A.One()
			if coset {
				sh = s
			}
			var ev, it []T
			switch {
			case v.bj >= 0: // closed form for a scaled basis vector
				ev, it = odft.BasisEval(A, n, v.bj, v.lam, w, sh), odft.BasisInterp(A, n, v.bj, v.lam, w, sh)
			case coset: // Interp on the coset = s^-j * Interp on the subgroup
				ev, it = odft.FastEval(A, v.x, w, sh), odft.ScalePow(A, itPlain, odft.Inv(A, s))
			default:
				ev, it = odft.FastEval(A, v.x, w, sh), itPlain
			}
			if !e.oracleSpot(rng, v.x, ev, it, w, sh, lg, v.name == "random#0") {
				return
			}
			evNat, evRev := e.lib(ev), e.lib(odft.Permute(ev))
			itNat, itRev := e.lib(it), e.lib(odft.Permute(it))
			for _, dm := range doms {
				for _, dit := range []bool{false, true} {
					in, wantF, wantI := xNat, evRev, itRev // DIF: natural in, bit-reversed out
					if dit {
						in, wantF, wantI = xRev, evNat, itNat // DIT: bit-reversed in, natural out
					}
					nbs := e.nbList(v.full, sz.light, call)
					call++
					// nbTasks=1 first: the library then runs on the calling goroutine and a panic is attributable
					for i, nb := range append([]nbOpt{{1, true}}, nbs...) {
						if i > 0 && nb.set && nb.nb == 1 {
							continue
						}
						e.one("FFT", e.in.FFT, dm.d, dm.pre, in, wantF, dit, coset, nb, lg, v, shiftKind, buf)
						e.one("FFTInverse", e.in.FFTInverse, dm.d, dm.pre, in, wantI, dit, coset, nb, lg, v, shiftKind, buf)
					}
					c.Class(fmt.Sprintf("%s/%s/%s/%s/%s/%s/%s", N, decName(dit), cosetName(coset), preName(dm.pre), logName(lg), shiftKind, v.cls))
				}
			}
		}
		if v.full {
			c.SampleOnce(N, map[string]any{"instance": N, "logn": lg, "shift": shiftKind, "vector": v.name, "options": "DIF/DIT x coset x precompute x nbTasks " + fmt.Sprint(nbFull)})
		}
	}
	if c.Thorough() && e.mode == "main" && !custom && (lg == 10 || lg == 13) {
		e.sweepTasks(dP, dN, w, s, lg, rng)
	}
	e.roundTrips(dP, dN, lg, rng, shiftKind)
	// purity: a transform must not modify the domain
	c.Check("purity", N+"/Domain/modified-by-transform/"+logName(lg), ffts.RawEqual(snapP, e.snapshot(dP)) && ffts.RawEqual(snapN, e.snapshot(dN)), func() string {
		return what + ": exported fields or precomputed tables changed after FFT/FFTInverse calls"
	})
}

func (e *env[E, P, D, T]) nbList(full, light bool, call int) []nbOpt {
	switch e.mode {
	case "sched", "race":
		if full {
			return nbPar
		}
		return []nbOpt{nbPar[call%len(nbPar)]}
	}
	if full {
		if light {
			return nbLight
		}
		return nbFull
	}
	return []nbOpt{nbFull[call%len(nbFull)], nbFull[(call*5+1)%len(nbFull)]}
}

// oracleSpot re-derives entries of the fast oracle results from the definition (Horner): all entries for n <= 2^8 (2^11 thorough)
// on the first vector (n <= 2^5 on every vector), 3 seeded entries otherwise. A disagreement is an oracle defect.
func (e *env[E, P, D, T]) oracleSpot(rng *gen.Rng, x, ev, it []T, w, sh T, lg int, first bool) bool {
	A := e.A
	n := 1 << lg
	var idx []int
	if lg <= 5 || (first && lg <= e.c.Pick(8, 11)) {
		for i := 0; i < n; i++ {
			idx = append(idx, i)
		}
	} else {
		idx = []int{rng.Intn(n), rng.Intn(n), n - 1}
	}
	for _, i := range idx {
		pt := A.Mul(sh, odft.Pow(A, w, uint64(i)))
		if !A.Equal(odft.HornerAt(A, x, pt), ev[i]) || !A.Equal(odft.HornerAt(A, it, pt), x[i]) {
			e.c.Inconclusive("%s: oracle fast transform disagrees with the definition at n=2^%d index %d", e.N, lg, i)
			return false
		}
	}
	return true
}

type fftFn[E any, D any] func(d *D, a []E, dit, coset bool, nb int, setNb bool)

// one runs one library transform and compares the whole output vector with the oracle.
func (e *env[E, P, D, T]) one(op string, f fftFn[E, D], d *D, pre bool, in, want []E, dit, coset bool, nb nbOpt, lg int, v vecT[T], shiftKind string, buf []E) {
	c, N := e.c, e.N
	copy(buf, in)
	cfg := fmt.Sprintf("%s/%s/%s/%s", decName(dit), cosetName(coset), preName(pre), logName(lg))
	desc := func() string {
		return fmt.Sprintf("%s n=2^%d %s nbTasks=%s GOMAXPROCS=%d vector=%s", cfg, lg, shiftKind, nb, gomaxprocs, v.name)
	}
	if _, isDead := e.dead.Load(op + "/" + cfg); isDead {
		return
	}
	c.Current(N + " " + op + " " + desc())
	if c.Guard(N+"/"+op+"/panic/"+cfg, desc, func() { f(d, buf, dit, coset, nb.nb, nb.set) }) {
		e.dead.Store(op+"/"+cfg, true)
		e.deadLg.Store(lg, true)
		return
	}
	c.Eval(op, 1)
	c.AddExtra("points_compared", int64(len(buf)))
	if ffts.RawEqual(buf, want) {
		return
	}
	e.reportDiff(N+"/"+op, cfg, desc(), buf, want)
}

func (e *env[E, P, D, T]) reportDiff(prefix, cfg, desc string, got, want []E) {
	nbad, first, nonCanon := 0, -1, false
	valuesEqual := true
	for i := range got {
		if !ffts.RawEqual(got[i:i+1], want[i:i+1]) {
			nbad++
			if first < 0 {
				first = i
			}
			if !e.cv.Canonical(&got[i]) {
				nonCanon = true
			}
			if e.cv.Value(&got[i]).Cmp(e.cv.Value(&want[i])) != 0 {
				valuesEqual = false
			}
		}
	}
	kind := "wrong-output"
	if valuesEqual && nonCanon {
		kind = "non-canonical-output"
	}
	e.c.Fail(prefix+"/"+kind+"/"+cfg, "%s: %d of %d entries differ; first at index %d: got %s want %s", desc, nbad, len(got), first,
		e.cv.Value(&got[first]).Text(16), e.cv.Value(&want[first]).Text(16))
}

// roundTrips: the inverse undoes the forward transform (statement), across domains built with and without tables and
// with different task counts on each side; DIF->DIT and DIT->DIF need no explicit bit reversal.
func (e *env[E, P, D, T]) roundTrips(dP, dN *D, lg int, rng *gen.Rng, shiftKind string) {
	c, N := e.c, e.N
	if _, isDead := e.deadLg.Load(lg); isDead {
		return
	}
	n := 1 << lg
	x := make([]T, n)
	for i := range x {
		x[i] = e.rnd(rng)
	}
	orig := e.lib(x)
	buf := e.work(n)
	tasks := nbFull
	if e.mode == "sched" || e.mode == "race" {
		tasks = nbPar
	}
	k := 0
	for _, coset := range []bool{false, true} {
		for _, fdit := range []bool{false, true} {
			for _, swap := range []bool{false, true} {
				d1, d2 := dP, dN
				if swap {
					d1, d2 = dN, dP
				}
				a, b := tasks[k%len(tasks)], tasks[(k*7+3)%len(tasks)]
				k++
				copy(buf, orig)
				cfg := fmt.Sprintf("%s-then-%s/%s/%s", decName(fdit), decName(!fdit), cosetName(coset), logName(lg))
				desc := func() string {
					return fmt.Sprintf("%s %s forward on %s (nbTasks=%s), inverse on %s (nbTasks=%s)", cfg, shiftKind, preName(!swap), a, preName(swap), b)
				}
				if c.Guard(N+"/roundtrip/panic/"+cfg, desc, func() {
					e.in.FFT(d1, buf, fdit, coset, a.nb, a.set)
					e.in.FFTInverse(d2, buf, !fdit, coset, b.nb, b.set)
				}) {
					continue
				}
				c.Eval("roundtrip", 1)
				if !ffts.RawEqual(buf, orig) {
					e.reportDiff(N+"/roundtrip", cfg, desc(), buf, orig)
				}
				// inverse first, then forward
				copy(buf, orig)
				if c.Guard(N+"/roundtrip/panic/"+cfg, desc, func() {
					e.in.FFTInverse(d1, buf, fdit, coset, a.nb, a.set)
					e.in.FFT(d2, buf, !fdit, coset, b.nb, b.set)
				}) {
					continue
				}
				c.Eval("roundtrip", 1)
				if !ffts.RawEqual(buf, orig) {
					e.reportDiff(N+"/roundtrip", "inverse-first/"+cfg, desc(), buf, orig)
				}
			}
		}
	}
	c.Class(fmt.Sprintf("%s/roundtrip/%s/%s", N, logName(lg), shiftKind))
}

// sweepTasks (thorough): every nbTasks in 1..512 on one dense vector, all 16 configurations.
func (e *env[E, P, D, T]) sweepTasks(dP, dN *D, w, s T, lg int, rng *gen.Rng) {
	A := e.A
	n := 1 << lg
	x := make([]T, n)
	for i := range x {
		x[i] = e.rnd(rng)
	}
	v := vecT[T]{"random#sweep", "dense", x, true, -1, A.Zero()}
	xNat, xRev := e.lib(x), e.lib(odft.Permute(x))
	buf := e.work(n)
	for _, coset := range []bool{false, true} {
		sh := A.One()
		if coset {
			sh = s
		}
		ev, it := odft.FastEval(A, x, w, sh), odft.FastInterp(A, x, w, sh)
		evNat, evRev := e.lib(ev), e.lib(odft.Permute(ev))
		itNat, itRev := e.lib(it), e.lib(odft.Permute(it))
		for nb := 1; nb <= 512; nb++ {
			for _, dit := range []bool{false, true} {
				in, wantF, wantI := xNat, evRev, itRev
				if dit {
					in, wantF, wantI = xRev, evNat, itNat
				}
				e.one("FFT", e.in.FFT, dP, true, in, wantF, dit, coset, nbOpt{nb, true}, lg, v, "default-shift", buf)
				e.one("FFT", e.in.FFT, dN, false, in, wantF, dit, coset, nbOpt{nb, true}, lg, v, "default-shift", buf)
				e.one("FFTInverse", e.in.FFTInverse, dP, true, in, wantI, dit, coset, nbOpt{nb, true}, lg, v, "default-shift", buf)
				e.one("FFTInverse", e.in.FFTInverse, dN, false, in, wantI, dit, coset, nbOpt{nb, true}, lg, v, "default-shift", buf)
			}
		}
	}
	e.c.Class(fmt.Sprintf("%s/nbTasks-sweep-1..512/%s", e.N, logName(lg)))
}
