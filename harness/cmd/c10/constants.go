package main

import (
	"fmt"
	"math/big"

	"verif/harness/adapt/ffts"
	"verif/harness/gen"
	"verif/harness/oracle/odft"
)

// constants: Generator(m) for every admissible size, the documented multiplicative generator, BuildExpTable.
func (e *env[E, P, D, T]) constants() {
	c, A, N := e.c, e.A, e.N
	c.Extra(N+".two_adicity", e.k)
	// ---- Generator(m): "returns a generator for Z/2^(log(m))Z or an error if m is too big"
	for lg := 0; lg <= e.k && lg <= 63; lg++ {
		n := uint64(1) << uint(lg)
		ms := []uint64{n}
		if lg >= 2 {
			ms = append(ms, n-1, n/2+1) // rounded up to the next power of two
		}
		for _, m := range ms {
			for which, fn := range map[string]func(uint64) (E, error){"fft.Generator": e.in.Generator, "field.Generator": e.in.FieldGenerator} {
				var g E
				var err error
				key := fmt.Sprintf("%s/%s/", N, which)
				if c.Guard(key+"panic", func() string { return fmt.Sprintf("m=%d", m) }, func() { g, err = fn(m) }) {
					continue
				}
				if !c.Check(which, key+"error-for-admissible-size/"+logName(lg), err == nil, func() string {
					return fmt.Sprintf("m=%d (2^%d <= 2^%d = two-adicity): err=%v", m, lg, e.k, err)
				}) {
					continue
				}
				gv := e.val(&g)
				c.Check(which, key+"not-a-primitive-root/"+logName(lg), e.cv.Canonical(&g) && odft.IsPrimitiveRoot(A, gv, n), func() string {
					return fmt.Sprintf("m=%d: returned %s does not have multiplicative order 2^%d (w^(n/2) = %s)", m, e.hx(gv), lg, e.hx(odft.Pow(A, gv, n/2)))
				})
			}
		}
		c.Class(fmt.Sprintf("%s/Generator/%s", N, logName(lg)))
	}
	if e.k < 63 {
		m := uint64(1) << uint(e.k+1)
		for which, fn := range map[string]func(uint64) (E, error){"fft.Generator": e.in.Generator, "field.Generator": e.in.FieldGenerator} {
			var err error
			key := fmt.Sprintf("%s/%s/", N, which)
			if !c.Guard(key+"panic", func() string { return fmt.Sprintf("m=%d", m) }, func() { _, err = fn(m) }) {
				c.Check(which, key+"no-error-beyond-two-adicity", err != nil, func() string {
					return fmt.Sprintf("m=2^%d: no 2^%d-th primitive root exists (q-1 = 2^%d*odd) but no error was returned", e.k+1, e.k+1, e.k)
				})
			}
		}
		c.Class(N + "/Generator/too-big")
	}

	// ---- NewDomain(2^lg, WithoutPrecompute) for EVERY admissible size (no table is allocated): exported fields
	for lg := 0; lg <= e.k && lg <= 63; lg++ {
		var d *D
		what := fmt.Sprintf("NewDomain(2^%d)+WithoutPrecompute", lg)
		if c.Guard(N+"/NewDomain/panic/"+logName(lg), func() string { return what }, func() { d = e.in.NewDomain(uint64(1)<<uint(lg), nil, false) }) {
			continue
		}
		e.domCheck(d, lg, what, nil)
		c.Class(fmt.Sprintf("%s/NewDomain/fields/%s", N, logName(lg)))
	}

	// ---- GeneratorFullMultiplicativeGroup: "returns a generator of F^x"
	g := e.in.MulGen()
	gv := e.val(&g)
	q := A.Modulus()
	qm1 := new(big.Int).Sub(q, big.NewInt(1))
	primes, complete := factor(qm1)
	bad := ""
	for _, p := range primes {
		ex := new(big.Int).Div(qm1, p)
		if new(big.Int).Exp(A.ToBig(gv), ex, q).Cmp(big.NewInt(1)) == 0 {
			bad = p.String()
			break
		}
	}
	c.Check("GeneratorFullMultiplicativeGroup", N+"/GeneratorFullMultiplicativeGroup/not-a-generator", bad == "" && gv2nz(A, gv), func() string {
		return fmt.Sprintf("g=%s: g^((q-1)/%s) = 1", e.hx(gv), bad)
	})
	c.Extra(N+".mulgen_check", map[string]any{"g": e.hx(gv), "prime_factors_of_q_minus_1_used": len(primes), "factorisation_complete": complete})
	c.Class(N + "/GeneratorFullMultiplicativeGroup")

	// ---- BuildExpTable: table[i] = w^i (goroutine chunks once (n-1)/(NumCPU/4) >= 352)
	rng := gen.New(c.Seed, "c10/exptable/"+N)
	for _, n := range []int{1, 2, 3, 17, 352, 353, 1409, 1410, 1411, 1412, 2817, c.Pick(6000, 100003)} {
		w := e.rnd(rng)
		if n%3 == 0 {
			w = A.Zero()
		}
		we := e.mk(w)
		table := make([]E, n)
		for i := range table {
			ffts.SetLimb0(&table[i], 0xdead)
		}
		key := N + "/BuildExpTable/"
		if c.Guard(key+"panic", func() string { return fmt.Sprintf("n=%d w=%s", n, e.hx(w)) }, func() { e.in.BuildExpTable(we, table) }) {
			continue
		}
		want := make([]E, n)
		p := A.One()
		for i := range want {
			want[i] = e.mk(p)
			p = A.Mul(p, w)
		}
		c.Eval("BuildExpTable", 1)
		if !ffts.RawEqual(table, want) {
			i := firstDiff(table, want)
			c.Fail(key+"wrong-entry", "n=%d w=%s: table[%d]=%s want w^%d=%s", n, e.hx(w), i, e.hx(e.val(&table[i])), i, e.hx(e.val(&want[i])))
		}
		c.Class(fmt.Sprintf("%s/BuildExpTable/n=%d", N, n))
	}
}

func gv2nz[T any](A odft.Arith[T], v T) bool { return !A.Equal(v, A.Zero()) }

func firstDiff[E any](a, b []E) int {
	for i := range a {
		if !ffts.RawEqual(a[i:i+1], b[i:i+1]) {
			return i
		}
	}
	return -1
}

// factor returns the distinct prime factors of n found by trial division up to 2^22 plus the cofactor when it is
// (probably) prime; complete is false when a composite cofactor remains (then the generator test is only necessary).
func factor(n *big.Int) (primes []*big.Int, complete bool) {
	n = new(big.Int).Set(n)
	var r big.Int
	for p := int64(2); p < 1<<22; p++ {
		if p > 3 && (p%2 == 0 || p%3 == 0) {
			continue
		}
		bp := big.NewInt(p)
		if r.Mod(n, bp).Sign() != 0 {
			continue
		}
		primes = append(primes, bp)
		for r.Mod(n, bp).Sign() == 0 {
			n.Div(n, bp)
		}
		if n.Cmp(big.NewInt(1)) == 0 {
			return primes, true
		}
	}
	if n.ProbablyPrime(30) {
		return append(primes, n), true
	}
	return primes, false
}
