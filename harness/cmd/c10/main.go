// C10: FFT equals the discrete Fourier transform for every domain, option and task count.
//
// For each of the 10 fft packages the library's Domain.FFT / FFTInverse / BitReverse / Domain.WriteTo+ReadFrom are
// run on seeded inputs; every output vector is compared, entry by entry, with the oracle (package oracle/odft:
// polynomial evaluation / interpolation on the coset s<w> computed over math/big or 128-bit machine arithmetic,
// cross-checked in the same run against the O(n^2) definition).
//
// Documented orderings that the oracle applies (fft.go): DIF takes natural order and returns bit-reversed order,
// DIT takes bit-reversed order and returns natural order, for the forward and the inverse transform alike.
package main

import (
	"flag"
	"fmt"
	"math/big"
	"os"
	"runtime"
	"runtime/debug"
	"runtime/pprof"
	"sync"
	"sync/atomic"
	"time"

	"verif/harness/adapt/ffts"
	"verif/harness/adapt/fields"
	"verif/harness/gen"
	"verif/harness/mon"
	"verif/harness/oracle/odft"
)

var flagMode = flag.String("mode", "main", "main | light | sched | race")
var flagProf = flag.String("cpuprofile", "", "write a CPU profile (debugging)")

// heavy bounds the number of instances that work on >= 2^17 points at the same time (memory).
var heavy = make(chan struct{}, 3)

var gomaxprocs = runtime.GOMAXPROCS(0)

type env[E any, P fields.Ptr[E], D any, T any] struct {
	c    *mon.Ctx
	in   *ffts.Inst[E, P, D]
	A    odft.Arith[T]
	cv   *ffts.Conv[E]
	mk   func(T) E  // oracle value -> canonical library element (no library conversion involved)
	val  func(*E) T // library element -> oracle value (raw * R^-1 mod q)
	N    string
	mode string
	k    int // two-adicity of q-1, computed by the oracle

	notedStale bool
	// dead: (operation, configuration) pairs that panicked on the calling goroutine with nbTasks=1. They are not run
	// again with goroutines (a panic inside a library goroutine cannot be recovered and would end the whole stage).
	dead   sync.Map
	deadLg sync.Map
}

func (e *env[E, P, D, T]) hx(v T) string { return e.A.ToBig(v).Text(16) }

// lib builds the library vector. Three times out of four it is a view that starts 1..3 elements into a larger
// allocation: vectors handed to the transforms are often sub-slices, which are not aligned to the width of the vector
// registers the way a fresh allocation is.
func (e *env[E, P, D, T]) lib(vs []T) []E {
	off := int(libCalls.Add(1) % 4)
	buf := make([]E, len(vs)+off)
	out := buf[off : off+len(vs) : off+len(vs)]
	for i := range vs {
		out[i] = e.mk(vs[i])
	}
	return out
}

var libCalls atomic.Int64

// work: a working buffer of n elements that the transforms are run in, laid out like lib.
func (e *env[E, P, D, T]) work(n int) []E {
	off := int(libCalls.Add(1) % 4)
	buf := make([]E, n+off)
	return buf[off : off+n : off+n]
}

func (e *env[E, P, D, T]) rnd(rng *gen.Rng) T { return e.A.FromBig(rng.BigBelow(e.A.Modulus())) }

func (e *env[E, P, D, T]) rndNonZero(rng *gen.Rng) T {
	qm1 := new(big.Int).Sub(e.A.Modulus(), big.NewInt(1))
	v := rng.BigBelow(qm1)
	return e.A.FromBig(v.Add(v, big.NewInt(1)))
}

func run[E any, P fields.Ptr[E], D any](c *mon.Ctx, in *ffts.Inst[E, P, D]) {
	cv := ffts.NewConv(in.F)
	q := in.F.Modulus
	k := 0
	for qm1 := new(big.Int).Sub(q, big.NewInt(1)); qm1.Bit(k) == 0; {
		k++
	}
	if q.BitLen() <= 64 {
		S := odft.NewSmall(q)
		r, rinv := cv.R.Uint64(), cv.RInv.Uint64()
		e := &env[E, P, D, uint64]{c: c, in: in, A: S, cv: cv, N: in.Name, mode: *flagMode, k: k,
			mk: func(v uint64) E {
				var x E
				ffts.SetLimb0(&x, S.Mul(v, r))
				return x
			},
			val: func(x *E) uint64 { return S.Mul(ffts.Limb0(x)%S.Q, rinv) },
		}
		e.all()
		return
	}
	B := odft.NewBig(q)
	e := &env[E, P, D, *big.Int]{c: c, in: in, A: B, cv: cv, N: in.Name, mode: *flagMode, k: k,
		mk:  func(v *big.Int) E { return cv.FromValue(v) },
		val: func(x *E) *big.Int { return cv.Value(x) },
	}
	e.all()
}

func (e *env[E, P, D, T]) all() {
	c := e.c
	// adapter sanity: the independent conversion agrees with the library on 1 and on a random value
	one := e.in.F.One()
	rng := gen.New(c.Seed, "c10/sanity/"+e.N)
	v := e.rnd(rng)
	x := e.mk(v)
	var bi big.Int
	P(&x).BigInt(&bi)
	if !e.A.Equal(e.val(&one), e.A.One()) || bi.Cmp(e.A.ToBig(v)) != 0 || !e.A.Equal(e.val(&x), v) || !e.cv.Canonical(&x) {
		c.Inconclusive("%s: element adapter round trip failed", e.N)
		return
	}
	if !e.oracleSelfTest() {
		return
	}
	phases := map[string][]func(){
		"main":  {e.constants, e.transforms, e.domainIO, e.bitReverse, func() { e.shared(2) }},
		"light": {e.constants, e.transforms, func() { e.shared(1) }},
		"sched": {e.transforms, func() { e.shared(2) }},
		"race":  {e.transforms, e.domainIO, func() { e.shared(3) }},
	}[e.mode]
	if phases == nil {
		c.Inconclusive("unknown mode %s", e.mode)
	}
	var walls []float64 // reporting only (never used by a verdict)
	for _, ph := range phases {
		t0 := time.Now()
		ph()
		walls = append(walls, float64(time.Since(t0).Milliseconds())/1000)
	}
	c.Extra(e.N+".phase_wall_s", walls)
}

// oracleSelfTest: FastEval == NaiveEval and FastInterp inverts it, on every size up to 2^7, with a shift.
func (e *env[E, P, D, T]) oracleSelfTest() bool {
	A := e.A
	rng := gen.New(e.c.Seed, "c10/oracle-self/"+e.N)
	for lg := 0; lg <= 7 && lg <= e.k; lg++ {
		n := 1 << lg
		w, ok := e.oracleRoot(lg)
		if !ok {
			e.c.Inconclusive("%s: oracle could not find a primitive 2^%d-th root", e.N, lg)
			return false
		}
		s := e.rndNonZero(rng)
		c := make([]T, n)
		for i := range c {
			c[i] = e.rnd(rng)
		}
		nv, fv := odft.NaiveEval(A, c, w, s), odft.FastEval(A, c, w, s)
		back := odft.FastInterp(A, fv, w, s)
		for i := range c {
			if !A.Equal(nv[i], fv[i]) || !A.Equal(back[i], c[i]) {
				e.c.Inconclusive("%s: oracle self-test failed at n=%d index %d", e.N, n, i)
				return false
			}
		}
	}
	return true
}

// oracleRoot returns some primitive 2^lg-th root of unity found by the oracle alone: g^((q-1)/2^lg) for the
// first small g that is a quadratic non-residue (Euler criterion).
func (e *env[E, P, D, T]) oracleRoot(lg int) (T, bool) {
	q := e.A.Modulus()
	qm1 := new(big.Int).Sub(q, big.NewInt(1))
	half := new(big.Int).Rsh(qm1, 1)
	for g := int64(2); g < 200; g++ {
		if new(big.Int).Exp(big.NewInt(g), half, q).Cmp(qm1) == 0 {
			ex := new(big.Int).Rsh(qm1, uint(lg))
			return e.A.FromBig(new(big.Int).Exp(big.NewInt(g), ex, q)), true
		}
	}
	return e.A.Zero(), false
}

func main() {
	c := mon.Init("C10")
	if *flagProf != "" {
		f, _ := os.Create(*flagProf)
		pprof.StartCPUProfile(f)
		defer pprof.StopCPUProfile()
	}
	debug.SetGCPercent(c.Pick(400, 150)) // the math/big oracle allocates a lot; the quick-tier heap is small
	c.Extra("mode", *flagMode)
	c.Extra("GOMAXPROCS", runtime.GOMAXPROCS(0))
	c.Extra("NumCPU", runtime.NumCPU())
	var wg sync.WaitGroup
	for _, fl := range allFFTs {
		if !mon.Selected(fl.name) {
			continue
		}
		wg.Add(1)
		fl := fl
		go func() {
			defer wg.Done()
			defer func() {
				if r := recover(); r != nil {
					c.Fail(fl.name+"/harness/panic", "panic outside a guarded call: %v", r)
				}
			}()
			fl.fn(c)
		}()
	}
	wg.Wait()
	pprof.StopCPUProfile()
	c.Finish()
}

func logName(lg int) string { return fmt.Sprintf("logn=%d", lg) }
