package main

import (
	"bufio"
	"bytes"
	"errors"
	"fmt"
	"io"
	"testing/iotest"

	"verif/harness/adapt/ffts"
	"verif/harness/gen"
)

// chunkReader hands out the data in the given chunk sizes (then whatever is left), never more than asked for.
type chunkReader struct {
	data   []byte
	chunks []int
}

func (r *chunkReader) Read(p []byte) (int, error) {
	if len(r.data) == 0 {
		return 0, io.EOF
	}
	n := len(r.data)
	if len(r.chunks) > 0 {
		if r.chunks[0] < n {
			n = r.chunks[0]
		}
	}
	if n > len(p) {
		n = len(p)
	}
	copy(p, r.data[:n])
	r.data = r.data[n:]
	if len(r.chunks) > 0 {
		r.chunks[0] -= n
		if r.chunks[0] == 0 {
			r.chunks = r.chunks[1:]
		}
	}
	return n, nil
}

type failWriter struct {
	left int
}

func (w *failWriter) Write(p []byte) (int, error) {
	if len(p) > w.left {
		n := w.left
		w.left = 0
		return n, errors.New("writer full")
	}
	w.left -= len(p)
	return len(p), nil
}

// sameDomain compares everything observable of two domains: exported fields, table accessors, and the output of the
// four transforms (coset, both decimations) on a seeded vector.
func (e *env[E, P, D, T]) sameDomain(a, b *D, lg int, probe []E) (bool, string) {
	pa, pb := e.in.Pub(a), e.in.Pub(b)
	if *pa.Cardinality != *pb.Cardinality {
		return false, fmt.Sprintf("Cardinality %d vs %d", *pa.Cardinality, *pb.Cardinality)
	}
	names := []string{"CardinalityInv", "Generator", "GeneratorInv", "FrMultiplicativeGen", "FrMultiplicativeGenInv"}
	ea := []*E{pa.CardinalityInv, pa.Generator, pa.GeneratorInv, pa.FrMultiplicativeGen, pa.FrMultiplicativeGenInv}
	eb := []*E{pb.CardinalityInv, pb.Generator, pb.GeneratorInv, pb.FrMultiplicativeGen, pb.FrMultiplicativeGenInv}
	for i := range ea {
		if !ffts.RawEqual([]E{*ea[i]}, []E{*eb[i]}) {
			return false, fmt.Sprintf("%s %s vs %s", names[i], e.cv.Raw(ea[i]).Text(16), e.cv.Raw(eb[i]).Text(16))
		}
	}
	if !ffts.RawEqual(e.snapshot(a), e.snapshot(b)) {
		return false, "precomputed tables (Twiddles/TwiddlesInv/CosetTable/CosetTableInv) differ"
	}
	if uint64(len(probe)) != *pa.Cardinality {
		return true, ""
	}
	x, y := make([]E, len(probe)), make([]E, len(probe))
	for _, dit := range []bool{false, true} {
		for _, inv := range []bool{false, true} {
			copy(x, probe)
			copy(y, probe)
			f := e.in.FFT
			if inv {
				f = e.in.FFTInverse
			}
			var pan any
			func() {
				defer func() { pan = recover() }()
				f(a, x, dit, true, 1, true) // one task: the library stays on this goroutine, a panic is recoverable
				f(b, y, dit, true, 1, true)
			}()
			if pan != nil {
				return false, fmt.Sprintf("transform panicked: %v", pan)
			}
			if !ffts.RawEqual(x, y) {
				return false, fmt.Sprintf("coset transform (inverse=%v, %s) gives a different output", inv, decName(dit))
			}
		}
	}
	return true, ""
}

func (e *env[E, P, D, T]) domainIO() {
	c, N := e.c, e.N
	rng := gen.New(c.Seed, "c10/domainio/"+N)
	lgs := []int{0, 1, 3, 6, 9}
	if c.Thorough() {
		lgs = []int{0, 1, 2, 3, 4, 5, 6, 8, 9, 11, 13}
	}
	if e.mode == "race" {
		lgs = []int{3, 10} // preComputeTwiddles / BuildExpTable goroutines under the race detector
	}
	for _, lg := range lgs {
		if lg > e.k {
			continue
		}
		for _, pre := range []bool{true, false} {
			for _, custom := range []bool{false, true} {
				var shiftPtr *E
				if custom {
					el := e.mk(e.rndNonZero(rng))
					shiftPtr = &el
				}
				tag := fmt.Sprintf("%s/%s/custom-shift=%v", logName(lg), preName(pre), custom)
				c.Current(N + " domainIO " + tag)
				var d *D
				if c.Guard(N+"/NewDomain/panic/"+logName(lg), func() string { return tag }, func() { d = e.in.NewDomain(1<<lg, shiftPtr, pre) }) {
					continue
				}
				var bb bytes.Buffer
				var wn int64
				var werr error
				if c.Guard(N+"/Domain.WriteTo/panic", func() string { return tag }, func() { wn, werr = e.in.WriteTo(d, &bb) }) {
					continue
				}
				if !c.Check("Domain.WriteTo", N+"/Domain.WriteTo/error-or-count", werr == nil && wn == int64(bb.Len()), func() string {
					return fmt.Sprintf("%s: err=%v returned count=%d bytes written=%d", tag, werr, wn, bb.Len())
				}) {
					continue
				}
				enc := append([]byte(nil), bb.Bytes()...)
				L := len(enc)
				// a failing writer must surface as an error
				for _, lim := range []int{0, 7, 8, L / 2, L - 1} {
					fw := &failWriter{left: lim}
					var err error
					if !c.Guard(N+"/Domain.WriteTo/panic", func() string { return tag }, func() { _, err = e.in.WriteTo(d, fw) }) {
						c.Check("Domain.WriteTo", N+"/Domain.WriteTo/writer-error-swallowed", err != nil, func() string {
							return fmt.Sprintf("%s: writer failed after %d of %d bytes, WriteTo returned nil", tag, lim, L)
						})
					}
				}
				probe := make([]E, 1<<lg)
				for i := range probe {
					probe[i] = e.mk(e.rnd(rng))
				}
				// ---- readers delivering the same bytes
				type rd struct {
					kind string
					mk   func() io.Reader
					note string
				}
				readers := []rd{
					{"whole/bytes.Reader", func() io.Reader { return bytes.NewReader(enc) }, ""},
					{"whole/bufio", func() io.Reader { return bufio.NewReaderSize(&chunkReader{data: enc, chunks: []int{1, 2, 3}}, 4096) }, ""},
					{"whole/trailing-data", func() io.Reader { return bytes.NewReader(append(append([]byte(nil), enc...), 0xAA, 0xBB, 0xCC)) }, ""},
					{"short-read/one-byte", func() io.Reader { return iotest.OneByteReader(bytes.NewReader(enc)) }, "1 byte per Read"},
					{"short-read/half", func() io.Reader { return iotest.HalfReader(bytes.NewReader(enc)) }, "half of the requested bytes per Read"},
					{"short-read/data-err", func() io.Reader { return iotest.DataErrReader(iotest.HalfReader(bytes.NewReader(enc))) }, "half reads, EOF together with the last bytes"},
				}
				for o := 1; o < L; o++ {
					o := o
					readers = append(readers, rd{"short-read/split", func() io.Reader { return &chunkReader{data: enc, chunks: []int{o}} }, fmt.Sprintf("two chunks: %d + %d bytes", o, L-o)})
				}
				for r := 0; r < 4; r++ {
					var ch []int
					for tot := 0; tot < L; {
						k := 1 + rng.Intn(2*L/3+1)
						ch = append(ch, k)
						tot += k
					}
					readers = append(readers, rd{"short-read/seeded-chunks", func() io.Reader { return &chunkReader{data: enc, chunks: append([]int(nil), ch...)} }, fmt.Sprintf("chunks %v", ch)})
				}
				for _, r := range readers {
					fresh := new(D)
					var n int64
					var err error
					key := N + "/Domain.ReadFrom/" + r.kind
					desc := func() string { return fmt.Sprintf("%s reader=%s %s (%d bytes)", tag, r.kind, r.note, L) }
					if c.Guard(key+"/panic", desc, func() { n, err = e.in.ReadFrom(fresh, r.mk()) }) {
						continue
					}
					same, why := false, ""
					if err == nil {
						same, why = e.sameDomain(d, fresh, lg, probe)
					}
					c.Check("Domain.ReadFrom", key, err == nil && n == int64(L) && same, func() string {
						return fmt.Sprintf("%s: err=%v count=%d want %d; decoded domain identical=%v %s", desc(), err, n, L, same, why)
					})
					c.Class(fmt.Sprintf("%s/Domain.ReadFrom/%s/%s", N, r.kind, tag))
				}
				// ---- two domains and a trailer in one stream: ReadFrom consumes exactly the bytes it reports, so that what
				// follows in the caller's reader is still there (a decoder that buffers ahead loses it)
				for ri, mk := range []func(b []byte) io.Reader{
					func(b []byte) io.Reader { return bytes.NewReader(b) },
					func(b []byte) io.Reader { return iotest.OneByteReader(bytes.NewReader(b)) },
					func(b []byte) io.Reader { return &chunkReader{data: b, chunks: []int{L + 5, 3, L}} },
					func(b []byte) io.Reader { return bufio.NewReaderSize(bytes.NewReader(b), 16) },
				} {
					trailer := []byte{0xAA, 0xBB, 0xCC}
					stream := append(append(append([]byte(nil), enc...), enc...), trailer...)
					cr := &countReader{r: mk(stream)}
					key := N + "/Domain.ReadFrom/back-to-back"
					first, second := new(D), new(D)
					var n1, n2 int64
					var e1, e2 error
					if c.Guard(key+"/panic", func() string { return tag }, func() { n1, e1 = e.in.ReadFrom(first, cr) }) {
						continue
					}
					used := cr.n
					if !c.Check("Domain.ReadFrom", key+"/consumed-more-than-reported", e1 == nil && n1 == int64(L) && used == n1, func() string {
						return fmt.Sprintf("%s reader#%d: first of two domains in one stream: err=%v reported %d bytes (encoding has %d), %d bytes were taken from the reader", tag, ri, e1, n1, L, used)
					}) {
						continue
					}
					if c.Guard(key+"/panic", func() string { return tag }, func() { n2, e2 = e.in.ReadFrom(second, cr) }) {
						continue
					}
					same := false
					why := ""
					if e2 == nil {
						same, why = e.sameDomain(d, second, lg, probe)
					}
					rest, _ := io.ReadAll(cr)
					c.Check("Domain.ReadFrom", key+"/second-domain-or-trailer-lost", e2 == nil && n2 == int64(L) && same && bytes.Equal(rest, trailer), func() string {
						return fmt.Sprintf("%s reader#%d: second domain: err=%v count=%d identical=%v %s; trailer read back %x want %x", tag, ri, e2, n2, same, why, rest, trailer)
					})
				}
				c.Class(fmt.Sprintf("%s/Domain.ReadFrom/back-to-back/%s", N, tag))
				// ---- receiver that already holds another (precomputed) domain
				{
					other := e.in.NewDomain(1<<((lg+2)%(min(e.k, 7)+1)), nil, true)
					var n int64
					var err error
					key := N + "/Domain.ReadFrom/reused-receiver"
					if !c.Guard(key+"/panic", func() string { return tag }, func() { n, err = e.in.ReadFrom(other, bytes.NewReader(enc)) }) {
						ok := err == nil && n == int64(L)
						why := ""
						if ok {
							// exported fields and transform behaviour must be those of d; the table accessors of a receiver
							// that used to be precomputed are not compared when d has no tables (stale, unused by FFT)
							pa, pb := e.in.Pub(d), e.in.Pub(other)
							ok = *pa.Cardinality == *pb.Cardinality && ffts.RawEqual(e.snapshot(d)[:6], e.snapshot(other)[:6])
							if ok && pre {
								ok, why = e.sameDomain(d, other, lg, probe)
							} else if ok {
								x, y := append([]E(nil), probe...), append([]E(nil), probe...)
								if !c.Guard(key+"/panic", func() string { return tag }, func() {
									e.in.FFT(d, x, false, true, 1, true)
									e.in.FFT(other, y, false, true, 1, true)
								}) {
									ok = ffts.RawEqual(x, y)
									why = "FFT(DIF, coset) output differs"
								}
								if _, terr := e.in.Twiddles(other); terr == nil && lg > 0 && !e.notedStale {
									e.notedStale = true
									c.Note("%s: after ReadFrom of a WithoutPrecompute domain into a receiver that was precomputed, Twiddles() still returns the old tables (not used by FFT)", N)
								}
							}
						}
						c.Check("Domain.ReadFrom", key, ok, func() string {
							return fmt.Sprintf("%s: err=%v count=%d want %d %s", tag, err, n, L, why)
						})
					}
				}
				// ---- truncated input: a strict prefix can never be reported as a successfully decoded domain
				for t := 0; t < L; t++ {
					fresh := new(D)
					var err error
					key := N + "/Domain.ReadFrom/truncated"
					if c.Guard(key+"/panic", func() string { return fmt.Sprintf("%s first %d of %d bytes", tag, t, L) }, func() { _, err = e.in.ReadFrom(fresh, bytes.NewReader(enc[:t])) }) {
						continue
					}
					c.Check("Domain.ReadFrom", key+"/accepted", err != nil, func() string {
						return fmt.Sprintf("%s: only the first %d of %d bytes were available and ReadFrom returned nil", tag, t, L)
					})
				}
				c.Class(fmt.Sprintf("%s/Domain.ReadFrom/truncated-every-offset/%s", N, tag))
			}
		}
	}
}

// countReader counts the bytes handed out by the reader it wraps.
type countReader struct {
	r io.Reader
	n int64
}

func (c *countReader) Read(p []byte) (int, error) {
	k, err := c.r.Read(p)
	c.n += int64(k)
	return k, err
}
