package main

import (
	"fmt"
	"sync"
	"unsafe"

	"verif/harness/adapt/ffts"
	"verif/harness/gen"
	"verif/harness/oracle/odft"
)

// bitReverse: BitReverse(v)[rev(i)] = v[i] (documented: "applies the bit-reversal permutation") and twice = identity.
// Entries are tagged with their index (limb 0 = i+1, a canonical element in every field for i < 2^28), so the
// permutation is read back without a second copy of the vector.
func (e *env[E, P, D, T]) bitReverse() {
	c, N := e.c, e.N
	var z E
	esz := int(unsafe.Sizeof(z))
	var lgs []int
	for lg := 0; lg <= 16; lg++ {
		lgs = append(lgs, lg)
	}
	// 2^21..2^27 use size-specialised tiled routines, > 2^27 a generic tiled routine, everything else the naive swap loop
	if c.Thorough() {
		lgs = append(lgs, 17, 18, 19, 20, 21, 22, 23, 24, 25, 26, 27) // 2^27 elements: 0.5 GB (31-bit fields) .. 6 GB (bw6-761)
		if esz <= 8 {
			lgs = append(lgs, 28) // the generic tiled routine (len > 2^27): 1 GB (31-bit fields), 2 GB (goldilocks)
		}
	} else {
		lgs = append(lgs, 20, 21, 22)
		for _, lg := range []int{23, 24} { // further size-specialised routines while the vector stays within 512 MB
			if esz<<uint(lg) <= 1<<29 {
				lgs = append(lgs, lg)
			}
		}
	}
	for _, lg := range lgs {
		bytes := esz << uint(lg)
		switch {
		case bytes >= 1<<31:
			huge.Lock()
			e.bitRevOne(lg)
			huge.Unlock()
		case bytes >= 1<<27:
			heavy <- struct{}{}
			e.bitRevOne(lg)
			<-heavy
		default:
			e.bitRevOne(lg)
		}
	}
	// random content at small sizes (independent of the tagging scheme)
	rng := gen.New(c.Seed, "c10/bitrev/"+N)
	for lg := 0; lg <= 10; lg++ {
		n := 1 << lg
		x := make([]T, n)
		for i := range x {
			x[i] = e.rnd(rng)
		}
		v := e.lib(x)
		want := e.lib(odft.Permute(x))
		if c.Guard(N+"/BitReverse/panic/"+logName(lg), func() string { return "random content" }, func() { e.in.BitReverse(v) }) {
			continue
		}
		c.Eval("BitReverse", 1)
		if !ffts.RawEqual(v, want) {
			c.Fail(N+"/BitReverse/wrong-permutation/"+logName(lg), "random content: first differing index %d", firstDiff(v, want))
		}
	}
}

func (e *env[E, P, D, T]) bitRevOne(lg int) {
	c, N := e.c, e.N
	n := 1 << lg
	c.Current(fmt.Sprintf("%s BitReverse n=2^%d", N, lg))
	v := make([]E, n)
	fill := func(lo, hi int) {
		for i := lo; i < hi; i++ {
			ffts.SetLimb0(&v[i], uint64(i)+1)
		}
	}
	par(n, fill)
	if c.Guard(N+"/BitReverse/panic/"+logName(lg), func() string { return "index-tagged content" }, func() { e.in.BitReverse(v) }) {
		return
	}
	check := func(round string, src func(j uint64) uint64) {
		var mu sync.Mutex
		bad, nbad := -1, 0
		par(n, func(lo, hi int) {
			var t E
			for j := lo; j < hi; j++ {
				ffts.SetLimb0(&t, src(uint64(j))+1)
				if !ffts.RawEqual(v[j:j+1], []E{t}) {
					mu.Lock()
					nbad++
					if bad < 0 || j < bad {
						bad = j
					}
					mu.Unlock()
				}
			}
		})
		c.Eval("BitReverse", 1)
		if nbad > 0 {
			c.Fail(N+"/BitReverse/"+round+"/"+logName(lg), "n=2^%d: %d positions wrong; position %d holds the entry that started at index %d, expected the one from index %d",
				lg, nbad, bad, int64(ffts.Limb0(&v[bad]))-1, src(uint64(bad)))
		}
	}
	check("wrong-permutation", func(j uint64) uint64 { return odft.Rev(j, lg) })
	if c.Guard(N+"/BitReverse/panic/"+logName(lg), func() string { return "second application" }, func() { e.in.BitReverse(v) }) {
		return
	}
	check("not-an-involution", func(j uint64) uint64 { return j })
	c.Class(fmt.Sprintf("%s/BitReverse/%s", N, logName(lg)))
}

// huge serialises the multi-gigabyte vectors of the thorough tier.
var huge sync.Mutex

// par splits [0,n) over a few goroutines (harness work only).
func par(n int, f func(lo, hi int)) {
	if n < 1<<16 {
		f(0, n)
		return
	}
	const parts = 4
	var wg sync.WaitGroup
	for p := 0; p < parts; p++ {
		wg.Add(1)
		go func(lo, hi int) {
			defer wg.Done()
			f(lo, hi)
		}(p*n/parts, (p+1)*n/parts)
	}
	wg.Wait()
}

// shared: several goroutines transform their own vectors through ONE domain at the same time (the domain is
// read-only for FFT/FFTInverse), with different options each; every result is compared with the oracle.
func (e *env[E, P, D, T]) shared(rounds int) {
	c, A, N := e.c, e.A, e.N
	rng := gen.New(c.Seed, "c10/shared/"+N)
	for _, lg := range []int{7, 10, 12} {
		if _, isDead := e.deadLg.Load(lg); isDead || lg > e.k {
			continue
		}
		n := 1 << lg
		var dP, dN *D
		if c.Guard(N+"/NewDomain/panic/"+logName(lg), func() string { return "shared" }, func() {
			dP, dN = e.in.NewDomain(uint64(n), nil, true), e.in.NewDomain(uint64(n), nil, false)
		}) {
			continue
		}
		pub := e.in.Pub(dP)
		w, s := e.val(pub.Generator), e.val(pub.FrMultiplicativeGen)
		if !odft.IsPrimitiveRoot(A, w, uint64(n)) {
			continue // reported by transforms()
		}
		type job struct {
			in, want []E
			d        *D
			pre      bool
			inv      bool
			dit      bool
			coset    bool
			nb       nbOpt
			v        vecT[T]
		}
		var jobs []job
		const G = 8
		for g := 0; g < G; g++ {
			x := make([]T, n)
			for i := range x {
				x[i] = e.rnd(rng)
			}
			coset, dit, inv, pre := g&1 == 1, g&2 == 2, g&4 == 4, (g+g/4)%2 == 0
			sh := A.One()
			if coset {
				sh = s
			}
			var out []T
			if inv {
				out = odft.FastInterp(A, x, w, sh)
			} else {
				out = odft.FastEval(A, x, w, sh)
			}
			j := job{inv: inv, dit: dit, coset: coset, pre: pre, nb: nbPar[g%len(nbPar)], v: vecT[T]{fmt.Sprintf("random#g%d", g), "dense", x, false, -1, A.Zero()}}
			if dit {
				j.in, j.want = e.lib(odft.Permute(x)), e.lib(out)
			} else {
				j.in, j.want = e.lib(x), e.lib(odft.Permute(out))
			}
			j.d = dN
			if pre {
				j.d = dP
			}
			jobs = append(jobs, j)
		}
		// each job once with nbTasks=1 on this goroutine (attributable panics), then concurrently
		for _, j := range jobs {
			op, f := "FFT", e.in.FFT
			if j.inv {
				op, f = "FFTInverse", e.in.FFTInverse
			}
			e.one(op, f, j.d, j.pre, j.in, j.want, j.dit, j.coset, nbOpt{1, true}, lg, j.v, "default-shift", e.work(n))
		}
		for r := 0; r < rounds; r++ {
			var wg sync.WaitGroup
			for _, j := range jobs {
				wg.Add(1)
				go func(j job) {
					defer wg.Done()
					buf := e.work(n)
					op, f := "FFT", e.in.FFT
					if j.inv {
						op, f = "FFTInverse", e.in.FFTInverse
					}
					e.one(op, f, j.d, j.pre, j.in, j.want, j.dit, j.coset, j.nb, lg, j.v, "default-shift,shared-domain", buf)
				}(j)
			}
			wg.Wait()
		}
		c.Class(fmt.Sprintf("%s/shared-domain/%s", N, logName(lg)))
	}
}
