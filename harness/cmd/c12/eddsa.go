package main

import (
	"bytes"
	"fmt"
	"math/big"

	"github.com/consensys/gnark-crypto/signature"

	"verif/harness/adapt/sigs"
	"verif/harness/adapt/te"
	"verif/harness/gen"
	"verif/harness/mon"
	"verif/harness/oracle/ofield"
	"verif/harness/oracle/osig"
	"verif/harness/oracle/oted"
)

type edEnv struct {
	c   *mon.Ctx
	d   *sigs.EdDSA
	N   string
	p   *osig.Ed
	T   *te.Curve
	rng *gen.Rng
	nb  int

	other *edKey // a second key, for the negative companion of every honest case
}

type edKey struct {
	label   string
	sk      signature.Signer
	pk      signature.PublicKey // copy of the PublicKey field of sk
	A       oted.Pt
	scalar  *big.Int
	randSrc []byte
}

func pt(x, y *big.Int) oted.Pt { return oted.Pt{X: ofield.El{x}, Y: ofield.El{y}} }

func (e *edEnv) ptStr(p oted.Pt) string { return e.p.C.String(p) }

// sameCurve: the package must operate on the curve it is named after.
func sameCurve(a, b *te.Curve) bool {
	return a.Q.Cmp(b.Q) == 0 && a.A.Cmp(b.A) == 0 && a.D.Cmp(b.D) == 0 && a.Order.Cmp(b.Order) == 0 &&
		a.Cofactor.Cmp(b.Cofactor) == 0 && a.F.Eq(a.Base.C[0], b.Base.C[0]) && a.F.Eq(a.Base.C[1], b.Base.C[1])
}

// curveCofactor derives #E(Fq)/Order without reading the library's Cofactor constant: the only multiple h*Order in
// the Hasse interval, confirmed by a point P with [h*Order]P = O.
func curveCofactor(t *te.Curve) (*big.Int, string) {
	q, l := t.Q, t.Order
	lo := new(big.Int).Sqrt(new(big.Int).Lsh(q, 2)) // floor(2 sqrt q)
	lo.Add(lo, one)
	hi := new(big.Int).Add(q, one)
	hi.Add(hi, lo)
	low := new(big.Int).Add(q, one)
	low.Sub(low, lo)
	h := new(big.Int).Div(hi, l)
	n := new(big.Int).Mul(h, l)
	if n.Cmp(low) < 0 {
		return nil, "no multiple of Order in the Hasse interval"
	}
	if new(big.Int).Sub(n, l).Cmp(low) >= 0 {
		return nil, "several multiples of Order in the Hasse interval"
	}
	rng := gen.New(1, "c12/cofactor/"+t.Name)
	confirmed := 0
	for i := 0; i < 8; i++ {
		P, ok := t.C.LiftY(ofield.El{rng.BigBelow(q)})
		if !ok {
			continue
		}
		z, ok := t.C.TryMul(P, n)
		if !ok {
			continue // exceptional addition on an incomplete curve: this trial says nothing
		}
		if !t.C.Eq(z, t.C.Zero()) {
			return nil, "a point is not killed by the candidate group order"
		}
		confirmed++
	}
	if confirmed == 0 {
		return nil, "no trial point could be multiplied by the candidate group order"
	}
	return h, ""
}

func runEdDSA(c *mon.Ctx, d *sigs.EdDSA) {
	N := d.Name
	decl, eff := d.Declared(), d.Effective()
	if err := eff.Bind(); err != nil {
		c.Inconclusive("%s: %v", N, err)
		return
	}
	if err := decl.Bind(); err != nil {
		c.Inconclusive("%s: %v", N, err)
		return
	}
	e := &edEnv{c: c, d: d, N: N, T: eff, rng: gen.New(c.Seed, "c12/"+N), nb: d.FrBytes}
	// the cofactor of the textbook equation is a property of the curve, not a library constant: #E = h*l with
	// |q+1-h*l| <= 2*sqrt(q) determines h, and one point of order exactly h*l (found by trial) confirms it.
	cof, why := curveCofactor(eff)
	if cof == nil {
		c.Inconclusive("%s: cofactor of the curve could not be determined independently: %s", N, why)
		return
	}
	c.Check("curve-constants", N+"/curve/cofactor-constant-differs-from-group-order", cof.Cmp(eff.Cofactor) == 0, func() string {
		return fmt.Sprintf("CurveParams.Cofactor=%s but #E(Fq)/Order=%s (Hasse interval + a point of that exact order)", eff.Cofactor, cof)
	})
	e.p = osig.NewEd(eff.C, eff.Q, eff.Order, cof, eff.B, d.FrBytes)
	if (eff.Q.BitLen()+7)/8 != d.FrBytes || eff.Q.BitLen() >= 8*d.FrBytes {
		c.Inconclusive("%s: no spare bit for the sign in %d bytes (field of %d bits)", N, d.FrBytes, eff.Q.BitLen())
		return
	}
	c.Extra(N+".curve", map[string]any{"field_bits": eff.Q.BitLen(), "order_bits": eff.Order.BitLen(), "cofactor": eff.Cofactor.String(), "complete": eff.Complete, "bytes": d.FrBytes})

	hashes := []hcfg{hSha256, hMimc(d.MiMC, d.FrBytes, eff.Q), hSha512}

	// ---------- keys ----------
	var keys []edKey
	nGen := c.Pick(2, 6)
	for i := 0; i < nGen; i++ {
		rd := &seedReader{rng: gen.New(c.Seed, fmt.Sprintf("c12/%s/key%d", N, i))}
		var sk signature.Signer
		var err error
		if c.Guard(N+"/GenerateKey/panic", func() string { return "seeded reader" }, func() { sk, err = d.GenerateKey(rd) }) {
			continue
		}
		if !c.Check("GenerateKey", N+"/GenerateKey/error", err == nil && sk != nil, func() string { return "err=" + errStr(err) }) {
			continue
		}
		if k, ok := e.checkKey(sk, fmt.Sprintf("generated#%d", i), rd.got); ok {
			keys = append(keys, k)
			// the key must live on the curve the package is named after
			if i == 0 {
				okDecl := sameCurve(decl, eff) && decl.C.IsOnCurve(k.A)
				c.Check("curve", N+"/curve/not-the-declared-curve", okDecl, func() string {
					return fmt.Sprintf("package %s: generated public key %s; the package computes on the curve of %s (a=%s d=%s order=%s), the curve it is named after is %s (a=%s d=%s order=%s); key on the named curve: %v",
						N, e.ptStr(k.A), eff.Name, eff.A.Text(16), eff.D.Text(16), eff.Order.Text(16), decl.Name, decl.A.Text(16), decl.D.Text(16), decl.Order.Text(16), decl.C.IsOnCurve(k.A))
				})
			}
		}
		c.Class(N + "/key/generated")
		// registry constructor with the same reader stream: same key
		if i == 0 {
			rd2 := &seedReader{rng: gen.New(c.Seed, fmt.Sprintf("c12/%s/key%d", N, i))}
			var sk2 signature.Signer
			if !c.Guard(N+"/signature.New/panic", func() string { return "registry" }, func() { sk2, err = d.Registry(rd2) }) {
				c.Check("signature.New", N+"/signature.New/differs-from-GenerateKey", err == nil && sk2 != nil && bytes.Equal(sk2.Bytes(), sk.Bytes()), func() string {
					return fmt.Sprintf("same reader stream: err=%s", errStr(err))
				})
				c.Class(N + "/key/registry")
			}
		}
	}
	// deserialised keys with chosen scalars (public key computed and encoded by the oracle)
	l := eff.Order
	full := new(big.Int).Sub(new(big.Int).Lsh(one, uint(8*e.nb)), one)
	crafted := []struct {
		cls string
		s   *big.Int
	}{{"scalar=1", big.NewInt(1)}, {"scalar=l-1", new(big.Int).Sub(l, one)}, {"scalar=l+1", new(big.Int).Add(l, one)},
		{"scalar=l", new(big.Int).Set(l)}, {"scalar=2^(8n)-1", full}, {"scalar=random", e.rng.BigBits(8 * e.nb)}, {"scalar=8", big.NewInt(8)}}
	if !c.Thorough() {
		crafted = crafted[:6]
	}
	for _, cr := range crafted {
		A := e.p.C.Mul(e.p.B, cr.s)
		buf := append(e.p.Encode(A), cr.s.FillBytes(make([]byte, e.nb))...)
		buf = append(buf, e.rng.Bytes(32)...)
		sk := d.NewPriv()
		var n int
		var err error
		if c.Guard(N+"/PrivateKey.SetBytes/panic/"+cr.cls, func() string { return hx(buf) }, func() { n, err = sk.SetBytes(buf) }) {
			continue
		}
		if !c.Check("PrivateKey.SetBytes", N+"/PrivateKey.SetBytes/valid-key-refused", err == nil, func() string {
			return fmt.Sprintf("%s buf=%s err=%s", cr.cls, hx(buf), errStr(err))
		}) {
			continue
		}
		_ = n
		if k, ok := e.checkKey(sk, cr.cls, nil); ok {
			c.Check("PrivateKey.SetBytes", N+"/PrivateKey.SetBytes/decoded-public-key-mismatch", e.p.C.Eq(k.A, A), func() string {
				return fmt.Sprintf("%s: decoded %s want %s", cr.cls, e.ptStr(k.A), e.ptStr(A))
			})
			keys = append(keys, k)
		}
		c.Class(N + "/key/deserialised/" + cr.cls)
	}
	if len(keys) == 0 {
		c.Inconclusive("%s: no usable key", N)
		return
	}

	if len(keys) > 1 {
		e.other = &keys[1]
	}
	// ---------- honest signatures: every key x hash x message ----------
	type triple struct {
		k   edKey
		h   hcfg
		m   msgCase
		sig []byte
	}
	var triples []triple
	for ki, k := range keys {
		for _, h := range hashes {
			ms := messages(h, e.rng, c.Thorough())
			if h.name == "sha512" {
				ms = ms[:3]
			}
			if ki >= 1 && !c.Thorough() { // quick: the full message list for the first key, a subset for the others
				ms = []msgCase{ms[0], ms[len(ms)/2], ms[len(ms)-1]}
			}
			for _, m := range ms {
				triples = append(triples, triple{k: k, h: h, m: m})
			}
		}
	}
	par(len(triples), func(i int) {
		t := &triples[i]
		t.sig = e.signCase(t.k, t.h, t.m, i%5 == 0)
	})
	// non-canonical block under MiMC: the hash refuses the message, so must Sign and Verify
	{
		h := hashes[1]
		bad := append(new(big.Int).Set(eff.Q).FillBytes(make([]byte, e.nb)), make([]byte, e.nb)...)
		e.signCase(keys[0], h, msgCase{"non-canonical-element", bad}, false)
	}
	// nil hash is refused by Sign and Verify
	{
		k := keys[0]
		var sig []byte
		var err error
		if !c.Guard(N+"/Sign/panic/nil-hash", func() string { return "" }, func() { sig, err = k.sk.Sign([]byte("m"), nil) }) {
			c.Check("Sign", N+"/Sign/nil-hash-accepted", err != nil, func() string { return "sig=" + hx(sig) })
		}
		c.Class(N + "/Sign/nil-hash")
	}

	// ---------- tampering around selected honest triples ----------
	var sel []int
	perKeyHash := map[string]int{}
	for i, t := range triples {
		if t.sig == nil || t.k.label != keys[0].label {
			continue
		}
		kh := t.h.name
		want := map[string][]string{"sha256": {"0B", "32B", "200B"}, "mimc": {"1-elements", "short-5B"}, "sha512": {"1B"}}[kh]
		for _, w := range want {
			if t.m.cls == w {
				sel = append(sel, i)
				perKeyHash[kh]++
			}
		}
	}
	if c.Thorough() { // a second key (crafted scalar l-1) as well
		for i, t := range triples {
			if t.sig != nil && t.k.label == "scalar=l-1" && (t.m.cls == "1000B" || t.m.cls == "9-elements") {
				sel = append(sel, i)
			}
		}
	}
	other := keys[len(keys)-1]
	if len(keys) > 1 && other.label == keys[0].label {
		other = keys[1]
	}
	for si, i := range sel {
		t := triples[i]
		allBits := si == 0 || c.Thorough() && si < 4
		e.tamper(t.k, t.h, t.m, t.sig, other, allBits)
	}

	// ---------- crafted signatures, keys and arbitrary strings ----------
	for _, h := range hashes[:2] {
		var m msgCase
		if h.block > 0 {
			m = msgCase{"2-elements", append(e.rng.BigBelow(eff.Q).FillBytes(make([]byte, e.nb)), e.rng.BigBelow(eff.Q).FillBytes(make([]byte, e.nb))...)}
		} else {
			m = msgCase{"40B", e.rng.Bytes(40)}
		}
		e.crafted(keys[0], h, m)
		e.arbitrary(keys[0], h, m, c.Pick(72, 1500))
	}
	e.pubKeyDecoding(keys[0])
	// last: the curve parameters handed out by the package are the caller's own copy (Sign reduces modulo the order)
	if eff.GetterPrivate != nil {
		if err := eff.GetterPrivate(); err != nil {
			c.Fail(N+"/GetEdwardsCurve/returned-parameters-share-storage-with-the-package", "%v", err)
		}
		c.Eval("GetEdwardsCurve", 1)
	}
}

// checkKey: structure of a private key and all byte round trips. seed = the bytes GenerateKey read (nil: not generated).
func (e *edEnv) checkKey(sk signature.Signer, label string, seed []byte) (edKey, bool) {
	c, N, nb := e.c, e.N, e.nb
	k := edKey{label: label, sk: sk}
	b := sk.Bytes()
	if !c.Check("PrivateKey.Bytes", N+"/PrivateKey.Bytes/length", len(b) == 2*nb+32, func() string {
		return fmt.Sprintf("%s: len=%d want %d", label, len(b), 2*nb+32)
	}) {
		return k, false
	}
	k.pk = e.d.PrivPub(sk)
	x, y := e.d.PubXY(k.pk)
	k.A = pt(x, y)
	k.scalar = new(big.Int).SetBytes(b[nb : 2*nb])
	k.randSrc = append([]byte(nil), b[2*nb:]...)
	desc := func() string {
		return fmt.Sprintf("%s: private key bytes %s, A=%s", label, hx(b), e.ptStr(k.A))
	}
	if !c.Check("key", N+"/key/public-key-off-curve", e.p.C.IsOnCurve(k.A), desc) {
		return k, false
	}
	want := e.p.C.Mul(e.p.B, k.scalar)
	c.Check("key", N+"/key/public-key-is-not-scalar-times-base", e.p.C.Eq(want, k.A), func() string { return desc() + " want " + e.ptStr(want) })
	c.Check("PrivateKey.Bytes", N+"/PrivateKey.Bytes/public-key-encoding", bytes.Equal(b[:nb], e.p.Encode(k.A)), func() string {
		return desc() + " oracle encoding " + hx(e.p.Encode(k.A))
	})
	if seed != nil {
		c.Check("GenerateKey", N+"/GenerateKey/reads-32-bytes", len(seed) == 32, func() string { return fmt.Sprintf("read %d bytes", len(seed)) })
		if len(seed) == 32 {
			ws, wr := e.p.DeriveKey(seed)
			c.Check("GenerateKey", N+"/GenerateKey/derivation-mismatch", bytes.Equal(ws, b[nb:2*nb]) && bytes.Equal(wr, k.randSrc), func() string {
				return fmt.Sprintf("seed=%s scalar=%s want %s randSrc=%s want %s", hx(seed), hx(b[nb:2*nb]), hx(ws), hx(k.randSrc), hx(wr))
			})
		}
	}
	// Public(), Equal, PublicKey bytes
	pub := sk.Public()
	px, py := e.d.PubXY(pub)
	c.Check("Public", N+"/Public/differs-from-field", px.Cmp(x) == 0 && py.Cmp(y) == 0, desc)
	c.Check("Equal", N+"/PublicKey.Equal/false-on-same-key", pub.Equal(k.pk) && k.pk.Equal(pub), desc)
	// the key returned by Public() is the caller's: decoding another key into it (the way a curve-agnostic caller
	// obtains an empty PublicKey of the right type) must not reach the signer. Done on a clone of the signer.
	{
		s2 := e.d.NewPriv()
		if _, err := s2.SetBytes(b); err == nil {
			before := s2.Public().Bytes()
			foreign := e.p.Encode(e.p.C.Mul(e.p.B, big.NewInt(7)))
			scratch := s2.Public()
			_, err := scratch.SetBytes(foreign)
			after := s2.Public().Bytes()
			c.Check("Public", N+"/Public/returned-key-aliases-the-signer", err != nil || (bytes.Equal(after, before) && bytes.Equal(s2.Bytes(), b)), func() string {
				return desc() + fmt.Sprintf(": after SetBytes(%s) on the value returned by Public(), Public() = %s (was %s), PrivateKey.Bytes() = %s", hx(foreign), hx(after), hx(before), hx(s2.Bytes()))
			})
		}
	}
	pb := k.pk.Bytes()
	c.Check("PublicKey.Bytes", N+"/PublicKey.Bytes/encoding-mismatch", bytes.Equal(pb, e.p.Encode(k.A)), func() string {
		return desc() + fmt.Sprintf(" got %s want %s", hx(pb), hx(e.p.Encode(k.A)))
	})
	// PublicKey round trip, consumed length, trailing and missing bytes
	for _, extra := range []int{0, 1, 40} {
		in := append(append([]byte(nil), pb...), bytes.Repeat([]byte{0xA5}, extra)...)
		p2 := e.d.NewPub()
		var n int
		var err error
		if c.Guard(fmt.Sprintf("%s/PublicKey.SetBytes/panic/trailing=%d", N, extra), func() string { return hx(in) }, func() { n, err = p2.SetBytes(in) }) {
			continue
		}
		ok := err == nil
		if ok {
			qx, qy := e.d.PubXY(p2)
			ok = qx.Cmp(x) == 0 && qy.Cmp(y) == 0 && bytes.Equal(p2.Bytes(), pb)
		}
		c.Check("PublicKey.SetBytes", fmt.Sprintf("%s/PublicKey.SetBytes/round-trip/trailing=%d", N, extra), ok, func() string { return desc() + " err=" + errStr(err) })
		c.Check("PublicKey.SetBytes", fmt.Sprintf("%s/PublicKey.SetBytes/consumed-length/trailing=%d", N, extra), err != nil || n == len(pb), func() string {
			return fmt.Sprintf("%s: returned %d, encoding has %d bytes", label, n, len(pb))
		})
	}
	{
		p2 := e.d.NewPub()
		var err error
		if !c.Guard(N+"/PublicKey.SetBytes/panic/short", func() string { return "" }, func() { _, err = p2.SetBytes(pb[:len(pb)-1]) }) {
			c.Check("PublicKey.SetBytes", N+"/PublicKey.SetBytes/short-buffer-accepted", err != nil, desc)
		}
		if !c.Guard(N+"/PublicKey.SetBytes/panic/empty", func() string { return "" }, func() { _, err = p2.SetBytes(nil) }) {
			c.Check("PublicKey.SetBytes", N+"/PublicKey.SetBytes/short-buffer-accepted", err != nil, desc)
		}
	}
	// PrivateKey round trip
	for _, extra := range []int{0, 1, 40} {
		in := append(append([]byte(nil), b...), bytes.Repeat([]byte{0x5A}, extra)...)
		s2 := e.d.NewPriv()
		var n int
		var err error
		if c.Guard(fmt.Sprintf("%s/PrivateKey.SetBytes/panic/trailing=%d", N, extra), func() string { return fmt.Sprintf("%d-byte encoding followed by %d more bytes", len(b), extra) }, func() { n, err = s2.SetBytes(in) }) {
			continue
		}
		c.Check("PrivateKey.SetBytes", fmt.Sprintf("%s/PrivateKey.SetBytes/round-trip/trailing=%d", N, extra), err == nil && bytes.Equal(s2.Bytes(), b), func() string {
			return desc() + " err=" + errStr(err) + " re-encoded " + hx(s2.Bytes())
		})
		c.Check("PrivateKey.SetBytes", fmt.Sprintf("%s/PrivateKey.SetBytes/consumed-length/trailing=%d", N, extra), err != nil || n == len(b), func() string {
			return fmt.Sprintf("%s: returned %d, encoding has %d bytes (2*%d+32)", label, n, len(b), nb)
		})
	}
	{
		s2 := e.d.NewPriv()
		var err error
		if !c.Guard(N+"/PrivateKey.SetBytes/panic/short", func() string { return "" }, func() { _, err = s2.SetBytes(b[:len(b)-1]) }) {
			c.Check("PrivateKey.SetBytes", N+"/PrivateKey.SetBytes/short-buffer-accepted", err != nil, desc)
		}
	}
	return k, true
}

// signCase: Sign against the documented deterministic procedure, then Verify. Returns the honest signature (nil if none).
func (e *edEnv) signCase(k edKey, h hcfg, m msgCase, dirty bool) []byte {
	c, N := e.c, e.N
	cls := h.name + "/" + m.cls
	c.Current(N + " sign " + k.label + " " + cls)
	msg := append([]byte(nil), m.m...)
	desc := func() string {
		return fmt.Sprintf("key %s (%s) hash=%s msg(%s)=%s", k.label, hx(k.sk.Bytes()), h.name, m.cls, hx(m.m))
	}
	want, _, werr := e.p.Sign(k.scalar, k.randSrc, k.A, m.m, h.new())
	var sig []byte
	var err error
	hh := h.new()
	if dirty {
		hh = h.dirty()
	}
	if c.Guard(N+"/Sign/panic/"+h.name, desc, func() { sig, err = k.sk.Sign(msg, hh) }) {
		return nil
	}
	c.Class(N + "/Sign/" + k.label + "/" + cls)
	if werr != nil { // the hash refuses this message
		c.Check("Sign", N+"/Sign/no-error-when-hash-fails/"+h.name, err != nil, desc)
		var ok bool
		var verr error
		junk := append(e.p.Encode(e.p.B), big.NewInt(1).FillBytes(make([]byte, e.nb))...)
		if !c.Guard(N+"/Verify/panic/hash-fails", desc, func() { ok, verr = k.pk.Verify(junk, msg, h.new()) }) {
			c.Check("Verify", N+"/Verify/accepted-invalid/hash-error/"+h.name, !ok, func() string { return desc() + " err=" + errStr(verr) })
		}
		return nil
	}
	if !c.Check("Sign", N+"/Sign/error/"+h.name, err == nil, func() string { return desc() + " err=" + errStr(err) }) {
		return nil
	}
	c.Check("Sign", N+"/Sign/signature-differs-from-specification/"+h.name, bytes.Equal(sig, want), func() string {
		return desc() + " got " + hx(sig) + " want " + hx(want)
	})
	c.Check("Sign", N+"/Sign/message-modified", bytes.Equal(msg, m.m), desc)
	dec := e.p.Verify(k.A, want, m.m, h.new())
	if dec.Undef || !dec.Accept {
		// S = 0 or R.y = 0 (probability ~2^-250) would make an honest signature unverifiable: not a harness fault, but nothing to compare
		c.Note("%s: oracle does not accept its own signature (%s) for %s", N, dec.Reason, desc())
		return nil
	}
	var ok bool
	var verr error
	sigIn := append([]byte(nil), sig...)
	vh := h.new()
	if dirty {
		vh = h.dirty()
	}
	if c.Guard(N+"/Verify/panic/honest", desc, func() { ok, verr = k.pk.Verify(sigIn, msg, vh) }) {
		return nil
	}
	c.Check("Verify", N+"/Verify/honest-rejected/"+h.name, ok && verr == nil, func() string { return desc() + " sig=" + hx(sig) + " err=" + errStr(verr) })
	c.Check("Verify", N+"/Verify/input-modified", bytes.Equal(sigIn, sig) && bytes.Equal(msg, m.m), desc)
	// signing is deterministic
	if len(m.m)%7 == 0 {
		s2, err2 := k.sk.Sign(msg, h.new())
		c.Check("Sign", N+"/Sign/not-deterministic", err2 == nil && bytes.Equal(s2, sig), desc)
	}
	// Signature byte round trip
	n, rx, ry, s, err := e.d.SigSetBytes(sig)
	if c.Check("Signature.SetBytes", N+"/Signature.SetBytes/honest-refused", err == nil, func() string { return desc() + " err=" + errStr(err) }) {
		c.Check("Signature.SetBytes", N+"/Signature.SetBytes/consumed-length", n == len(sig), func() string { return fmt.Sprintf("returned %d for %d bytes", n, len(sig)) })
		c.Check("Signature.Bytes", N+"/Signature.Bytes/round-trip", bytes.Equal(e.d.SigBytes(rx, ry, s), sig), desc)
	}
	c.SampleOnce(N, map[string]any{"instance": N, "key": k.label, "hash": h.name, "msg_class": m.cls, "signature": hx(sig), "oracle": "equation-holds"})
	// negative companions of every honest case: one signature bit flipped, and the same signature under another key
	e.decide("companion/sig-bit-flip", k.pk, flipBit(sig, (int(sig[0])<<8|int(sig[1]))%(8*len(sig))), m.m, h)
	if e.other != nil && e.other.label != k.label {
		e.decide("companion/other-key", e.other.pk, sig, m.m, h)
	}
	return sig
}

// decide runs one candidate through the library and the oracle. A is given as raw coordinates.
func (e *edEnv) decide(cls string, pk signature.PublicKey, sig, msg []byte, h hcfg) {
	c, N := e.c, e.N
	x, y := e.d.PubXY(pk)
	dec := e.p.Verify(pt(x, y), sig, msg, h.new())
	if dec.Undef {
		c.Class(N + "/Verify/oracle-undefined(incomplete-curve)/" + cls)
		return
	}
	desc := func() string {
		return fmt.Sprintf("class=%s hash=%s A=(%s,%s) sig=%s msg=%s", cls, h.name, x.Text(16), y.Text(16), hx(sig), hx(msg))
	}
	// oracle self-check on a deterministic sample: the simultaneous evaluation of the equation must agree with the two-sided one
	if (dec.Reason == "equation-holds" || dec.Reason == "equation-fails") && (dec.Accept || len(sig) > 3 && sig[3]%8 == 0) {
		if R, s, why := e.p.ParseSig(sig); why == "" {
			if k, err := e.p.Challenge(h.new(), R, pt(x, y), msg); err == nil {
				if d2 := e.p.EquationPlain(pt(x, y), R, s, k); !d2.Undef && d2.Accept != dec.Accept {
					c.Inconclusive("%s: the two evaluations of the verification equation disagree in the oracle on %s", N, desc())
					return
				}
				c.AddExtra("oracle_equation_cross_checks", 1)
			}
		}
	}
	var ok bool
	var err error
	sigIn, msgIn := append([]byte(nil), sig...), append([]byte(nil), msg...)
	if sig == nil {
		sigIn = nil
	}
	if c.Guard(N+"/Verify/panic/"+cls, desc, func() { ok, err = pk.Verify(sigIn, msgIn, h.new()) }) {
		return
	}
	if dec.Accept {
		c.Check("Verify", N+"/Verify/rejected-valid/"+cls, ok, func() string { return desc() + " err=" + errStr(err) + " (oracle: equation holds)" })
	} else {
		c.Check("Verify", N+"/Verify/accepted-invalid/"+dec.Reason+"/"+cls, !ok, func() string { return desc() + " (oracle: " + dec.Reason + ")" })
	}
	c.Check("Verify", N+"/Verify/true-with-error", !(ok && err != nil), desc)
	c.Class(N + "/Verify/" + h.name + "/" + cls + "/" + dec.Reason)
}

// tamper: single-bit mutations of (sig, msg, pk) and other near misses around one honest triple.
func (e *edEnv) tamper(k edKey, h hcfg, m msgCase, sig []byte, other edKey, allBits bool) {
	c, N, nb := e.c, e.N, e.nb
	c.Current(N + " tamper " + h.name + "/" + m.cls)
	// signature bits
	pos := positions(e.rng, len(sig)*8, c.Pick(40, 256), allBits)
	par(len(pos), func(i int) {
		b := pos[i]
		part := "R"
		if b >= 8*nb {
			part = "S"
		}
		e.decide("sig-bit-flip/"+part, k.pk, flipBit(sig, b), m.m, h)
	})
	c.AddExtra("eddsa_sig_bit_flips", int64(len(pos)))
	// message bits (all for short messages)
	mpos := positions(e.rng, len(m.m)*8, c.Pick(32, 256), false)
	par(len(mpos), func(i int) { e.decide("msg-bit-flip", k.pk, sig, flipBit(m.m, mpos[i]), h) })
	if h.block == 0 {
		e.decide("msg-extended", k.pk, sig, append(append([]byte(nil), m.m...), 0), h)
		e.decide("msg-prefixed", k.pk, sig, append([]byte{0}, m.m...), h)
		if len(m.m) > 0 {
			e.decide("msg-truncated", k.pk, sig, m.m[:len(m.m)-1], h)
		}
	}
	if h.block != 0 && len(m.m)%h.block == 0 {
		// the signed message followed by something the hash refuses (a non-canonical element: absorbed up to there; one
		// more byte: nothing absorbed): the hash of that message does not exist, the signature of M is not one of M'
		e.decide("msg-extended-by-refused-element", k.pk, sig, append(append([]byte(nil), m.m...), bytes.Repeat([]byte{0xff}, h.block)...), h)
		e.decide("msg-extended-by-one-byte", k.pk, sig, append(append([]byte(nil), m.m...), 0x01), h)
	}
	if h.block != 0 && len(m.m)%h.block == 0 { // MiMC only takes whole elements (or one short value); other lengths belong to C14
		e.decide("msg-extended-by-zero-element", k.pk, sig, append(append([]byte(nil), m.m...), make([]byte, h.block)...), h)
		if len(m.m) >= h.block {
			e.decide("msg-truncated-by-one-element", k.pk, sig, m.m[:len(m.m)-h.block], h)
		}
	}
	// public key bits: decode the mutated encoding with the library, compare with the strict decoder, then verify under it
	pb := k.pk.Bytes()
	kpos := positions(e.rng, len(pb)*8, c.Pick(40, 256), allBits)
	par(len(kpos), func(i int) {
		mut := flipBit(pb, kpos[i])
		if pk2, ok := e.decodePub("pk-bit-flip", mut); ok {
			e.decide("pk-bit-flip", pk2, sig, m.m, h)
		}
	})
	// other key, other hash
	e.decide("other-key", other.pk, sig, m.m, h)
	e.decide("nil-hash", k.pk, sig, m.m, hNil)
	if h.name == "sha256" {
		e.decide("other-hash", k.pk, sig, m.m, hSha512)
	}
	// public key struct set to arbitrary coordinates
	x, y := e.d.PubXY(k.pk)
	q := e.p.Q
	for _, a := range []struct {
		cls  string
		x, y *big.Int
	}{{"A.y+1(off-curve)", x, new(big.Int).Mod(new(big.Int).Add(y, one), q)}, {"A=(0,0)", new(big.Int), new(big.Int)},
		{"A=-A", new(big.Int).Mod(new(big.Int).Neg(x), q), y}, {"A=(x,-y)", x, new(big.Int).Mod(new(big.Int).Neg(y), q)},
		{"A=identity", new(big.Int), big.NewInt(1)}, {"A=(0,-1)", new(big.Int), new(big.Int).Sub(q, one)}, {"A=(y,x)", y, x}} {
		e.decide("pk-struct/"+a.cls, e.d.MakePub(a.x, a.y), sig, m.m, h)
	}
}

// decodePub feeds an encoding to PublicKey.SetBytes and compares with the strict decoder (RFC 8032 5.1.3).
func (e *edEnv) decodePub(cls string, enc []byte) (signature.PublicKey, bool) {
	c, N := e.c, e.N
	want, st, lenOK := e.p.DecodeLenient(enc)
	pk := e.d.NewPub()
	var err error
	if c.Guard(N+"/PublicKey.SetBytes/panic/"+cls, func() string { return hx(enc) }, func() { _, err = pk.SetBytes(enc) }) {
		return nil, false
	}
	c.Class(N + "/PublicKey.SetBytes/" + cls + "/" + st)
	if st == "ok" {
		if !c.Check("PublicKey.SetBytes", N+"/PublicKey.SetBytes/valid-encoding-refused/"+cls, err == nil, func() string { return hx(enc) + " err=" + errStr(err) }) {
			return nil, false
		}
		x, y := e.d.PubXY(pk)
		if !c.Check("PublicKey.SetBytes", N+"/PublicKey.SetBytes/decoded-point-mismatch/"+cls, e.p.C.Eq(pt(x, y), want), func() string {
			return fmt.Sprintf("%s decoded (%s,%s) want %s", hx(enc), x.Text(16), y.Text(16), e.ptStr(want))
		}) {
			return nil, false
		}
		return pk, true
	}
	c.Check("PublicKey.SetBytes", N+"/PublicKey.SetBytes/accepted-invalid-encoding/"+st, err != nil, func() string {
		x, y := e.d.PubXY(pk)
		s := fmt.Sprintf("encoding %s (%s) accepted as (%s,%s), which re-encodes as %s", hx(enc), st, x.Text(16), y.Text(16), hx(pk.Bytes()))
		if lenOK {
			s += "; canonical encoding of that point: " + hx(e.p.Encode(want))
		}
		return s
	})
	return nil, false
}

func (e *edEnv) sigOf(r oted.Pt, s *big.Int) []byte {
	return append(e.p.Encode(r), s.FillBytes(make([]byte, e.nb))...)
}

// crafted signatures: range boundaries, non-canonical encodings, small-order components, lengths, and
// signatures that satisfy the cofactored equation without coming from Sign.
func (e *edEnv) crafted(k edKey, h hcfg, m msgCase) {
	c, N, nb, p := e.c, e.N, e.nb, e.p
	c.Current(N + " crafted " + h.name)
	honest, R, err := p.Sign(k.scalar, k.randSrc, k.A, m.m, h.new())
	if err != nil {
		c.Inconclusive("%s: oracle cannot sign the crafted-case message: %v", N, err)
		return
	}
	S := new(big.Int).SetBytes(honest[nb:])
	Renc := honest[:nb]
	l, q := p.L, p.Q
	type cand struct {
		cls string
		sig []byte
	}
	var cs []cand
	add := func(cls string, sig []byte) { cs = append(cs, cand{cls, sig}) }
	fill := func(v *big.Int) []byte {
		if v.BitLen() > 8*nb {
			return nil
		}
		return v.FillBytes(make([]byte, nb))
	}
	withS := func(cls string, v *big.Int) {
		if b := fill(v); b != nil {
			add("S="+cls, append(append([]byte(nil), Renc...), b...))
		}
	}
	add("honest", honest)
	withS("0", new(big.Int))
	withS("l", l)
	withS("l+1", new(big.Int).Add(l, one))
	withS("l-1", new(big.Int).Sub(l, one))
	withS("1", big.NewInt(1))
	withS("S+l", new(big.Int).Add(S, l))
	withS("S+2l", new(big.Int).Add(S, new(big.Int).Lsh(l, 1)))
	withS("S+1", new(big.Int).Add(S, one))
	withS("S-1", new(big.Int).Sub(S, one))
	withS("l-S", new(big.Int).Sub(l, S))
	withS("2^(8n)-1", new(big.Int).Sub(new(big.Int).Lsh(one, uint(8*nb)), one))
	withS("S|top-bit", new(big.Int).SetBit(new(big.Int).Set(S), 8*nb-1, 1))
	withS("2^bitlen(l)", new(big.Int).Lsh(one, uint(l.BitLen())))
	// R.y variants (little endian, optional sign bit)
	yEnc := func(y *big.Int, sign bool) []byte {
		if y.BitLen() > 8*nb-1 {
			return nil
		}
		b := y.FillBytes(make([]byte, nb))
		for i, j := 0, nb-1; i < j; i, j = i+1, j-1 {
			b[i], b[j] = b[j], b[i]
		}
		if sign {
			b[nb-1] |= 0x80
		}
		return b
	}
	withR := func(cls string, y *big.Int, sign bool) {
		if b := yEnc(y, sign); b != nil {
			add("R.y="+cls, append(b, honest[nb:]...))
		}
	}
	withR("0", new(big.Int), false)
	withR("0,sign-bit", new(big.Int), true)
	withR("q", q, false)
	withR("q+1(=identity+q)", new(big.Int).Add(q, one), false)
	withR("q-1", new(big.Int).Sub(q, one), false)
	withR("1", big.NewInt(1), false)
	withR("honest+q", new(big.Int).Add(R.Y[0], q), Renc[nb-1]&0x80 != 0)
	withR("2^(8n-1)-1", new(big.Int).Sub(new(big.Int).Lsh(one, uint(8*nb-1)), one), false)
	withR("2^(8n-1)-1,sign-bit", new(big.Int).Sub(new(big.Int).Lsh(one, uint(8*nb-1)), one), true)
	{ // -R
		neg := append([]byte(nil), honest...)
		neg[nb-1] ^= 0x80
		add("R=-R", neg)
	}
	{ // y with no point above it
		y := new(big.Int).Set(R.Y[0])
		for i := 0; i < 200; i++ {
			y.Add(y, one).Mod(y, q)
			if _, ok := p.C.LiftY(ofield.El{y}); !ok {
				withR("no-square-root", y, false)
				withR("no-square-root,sign-bit", y, true)
				break
			}
		}
	}
	add("swapped-halves", append(append([]byte(nil), honest[nb:]...), honest[:nb]...))
	add("len=nil", nil)
	add("len=0", []byte{})
	add("len=1", honest[:1])
	add("len=n", honest[:nb])
	add("len=2n-1", honest[:2*nb-1])
	add("len=2n+1", append(append([]byte(nil), honest...), 0))
	add("len=3n", append(append([]byte(nil), honest...), make([]byte, nb)...))
	add("len=4n", append(append([]byte(nil), honest...), honest...))
	add("all-zero", make([]byte, 2*nb))
	add("all-FF", bytes.Repeat([]byte{0xff}, 2*nb))

	// valid without Sign: R = [r]B (+ torsion), S = r + H(R,A,M) a
	forge := func(sc *big.Int, r *big.Int, Rp oted.Pt, A oted.Pt, rSignBit int) (signature.PublicKey, []byte) {
		ch, err := p.Challenge(h.new(), Rp, A, m.m)
		if err != nil {
			return nil, nil
		}
		s := new(big.Int).Mul(ch, sc)
		s.Add(s, r).Mod(s, l)
		sig := e.sigOf(Rp, s)
		if rSignBit == 1 {
			sig[nb-1] |= 0x80
		}
		return e.d.MakePub(A.X[0], A.Y[0]), sig
	}
	type pkc struct {
		cls string
		pk  signature.PublicKey
		sig []byte
	}
	var pcs []pkc
	addFs := func(cls string, sc, r *big.Int, Rp, A oted.Pt, bit int) {
		if pk, sig := forge(sc, r, Rp, A, bit); pk != nil {
			pcs = append(pcs, pkc{cls, pk, sig})
		}
	}
	addF := func(cls string, r *big.Int, Rp, A oted.Pt, bit int) { addFs(cls, k.scalar, r, Rp, A, bit) }
	ident := p.C.Zero()
	minus := oted.Pt{X: p.F.Zero(), Y: p.F.Neg(p.F.One())}
	r1 := e.rng.BigBelow(l)
	R1 := p.C.Mul(p.B, r1)
	addF("forged/own-nonce", r1, R1, k.A, 0)
	addF("forged/R=identity", new(big.Int), ident, k.A, 0)
	addF("forged/R=identity,sign-bit(non-canonical)", new(big.Int), ident, k.A, 1)
	addF("forged/R=(0,-1)", new(big.Int), minus, k.A, 0)
	addF("forged/R=(0,-1),sign-bit(non-canonical)", new(big.Int), minus, k.A, 1)
	// torsion components
	var tors []oted.Pt
	halfCof := new(big.Int).Rsh(p.Cof, 1)
	for tries := 0; tries < 64 && len(tors) < 3; tries++ {
		P, ok := p.C.LiftY(ofield.El{e.rng.BigBelow(q)})
		if !ok {
			continue
		}
		T, ok := p.Torsion(P)
		if !ok || p.C.Eq(T, ident) {
			continue
		}
		// the first one kept has the largest order the cofactor allows for a cyclic 2-part (tries permitting)
		if len(tors) == 0 && tries < 48 {
			if z, ok := p.C.TryMul(T, halfCof); !ok || p.C.Eq(z, ident) {
				continue
			}
		}
		dup := false
		for _, u := range tors {
			dup = dup || p.C.Eq(u, T)
		}
		if !dup {
			tors = append(tors, T)
		}
	}
	for i, T := range tors {
		if Rt, ok := p.C.Add(R1, T); ok {
			addF(fmt.Sprintf("forged/R+torsion#%d", i), r1, Rt, k.A, 0)
		}
		addF(fmt.Sprintf("forged/R=torsion#%d", i), new(big.Int), T, k.A, 0)
		if At, ok := p.C.Add(k.A, T); ok {
			addF(fmt.Sprintf("forged/A+torsion#%d", i), r1, R1, At, 0)
		}
		// a key that is a pure torsion point: [c][k]A = O, so S = r verifies
		addFs(fmt.Sprintf("forged/A=torsion#%d", i), new(big.Int), r1, R1, T, 0)
	}
	addFs("forged/A=(0,-1)", new(big.Int), r1, R1, minus, 0)
	// A = identity: S free, R = [S]B
	{
		s := e.rng.BigBelow(l)
		if s.Sign() == 0 {
			s.SetInt64(5)
		}
		pcs = append(pcs, pkc{"forged/A=identity", e.d.MakePub(new(big.Int), big.NewInt(1)), e.sigOf(p.C.Mul(p.B, s), s)})
	}
	par(len(cs)+len(pcs), func(i int) {
		if i < len(cs) {
			e.decide("crafted/"+cs[i].cls, k.pk, cs[i].sig, m.m, h)
			// Signature.SetBytes alone must agree with the format rules
			e.sigFormat("crafted/"+cs[i].cls, cs[i].sig)
			return
		}
		pc := pcs[i-len(cs)]
		e.decide("crafted/"+pc.cls, pc.pk, pc.sig, m.m, h)
		e.sigFormat("crafted/"+pc.cls, pc.sig)
	})
}

// sigFormat: Signature.SetBytes accepts exactly the strings the format rules accept.
func (e *edEnv) sigFormat(cls string, sig []byte) {
	c, N := e.c, e.N
	R, s, why := e.p.ParseSig(sig)
	var n int
	var rx, ry *big.Int
	var sb []byte
	var err error
	if c.Guard(N+"/Signature.SetBytes/panic/"+cls, func() string { return hx(sig) }, func() { n, rx, ry, sb, err = e.d.SigSetBytes(sig) }) {
		return
	}
	if why != "" {
		c.Check("Signature.SetBytes", N+"/Signature.SetBytes/accepted-invalid/"+why, err != nil, func() string { return cls + " " + hx(sig) })
		return
	}
	if c.Check("Signature.SetBytes", N+"/Signature.SetBytes/valid-refused/"+cls, err == nil, func() string { return hx(sig) + " err=" + errStr(err) }) {
		c.Check("Signature.SetBytes", N+"/Signature.SetBytes/decoded-mismatch", e.p.C.Eq(pt(rx, ry), R) && new(big.Int).SetBytes(sb).Cmp(s) == 0 && n == len(sig), func() string {
			return fmt.Sprintf("%s: R=(%s,%s) want %s n=%d", hx(sig), rx.Text(16), ry.Text(16), e.ptStr(R), n)
		})
	}
}

// arbitrary candidate strings: raw random bytes, and well-formed (R on the curve, S in range) random pairs.
func (e *edEnv) arbitrary(k edKey, h hcfg, m msgCase, n int) {
	nb, p := e.nb, e.p
	e.c.Current(e.N + " arbitrary " + h.name)
	sigs := make([][]byte, 0, n)
	cls := make([]string, 0, n)
	for i := 0; i < n; i++ {
		switch i % 3 {
		case 0:
			sigs, cls = append(sigs, e.rng.Bytes(2*nb)), append(cls, "random-bytes")
		case 1: // fields in range
			y := e.rng.BigBelow(p.Q)
			b := y.FillBytes(make([]byte, nb))
			for i, j := 0, nb-1; i < j; i, j = i+1, j-1 {
				b[i], b[j] = b[j], b[i]
			}
			if e.rng.Bool() {
				b[nb-1] |= 0x80
			}
			sigs, cls = append(sigs, append(b, e.rng.BigBelow(p.L).FillBytes(make([]byte, nb))...)), append(cls, "random-in-range")
		default: // R a random multiple of B, S random
			R := p.C.Mul(p.B, e.rng.BigBits(64))
			sigs, cls = append(sigs, e.sigOf(R, e.rng.BigBelow(p.L))), append(cls, "random-valid-R")
		}
	}
	par(n, func(i int) {
		e.decide("arbitrary/"+cls[i], k.pk, sigs[i], m.m, h)
		if i%3 != 2 {
			e.sigFormat("arbitrary/"+cls[i], sigs[i])
		}
	})
	e.c.AddExtra("eddsa_arbitrary_candidates", int64(n))
}

// pubKeyDecoding: PublicKey.SetBytes on canonical, non-canonical and impossible encodings.
func (e *edEnv) pubKeyDecoding(k edKey) {
	nb, p, q := e.nb, e.p, e.p.Q
	yEnc := func(y *big.Int, sign bool) []byte {
		if y.BitLen() > 8*nb-1 {
			return nil
		}
		b := y.FillBytes(make([]byte, nb))
		for i, j := 0, nb-1; i < j; i, j = i+1, j-1 {
			b[i], b[j] = b[j], b[i]
		}
		if sign {
			b[nb-1] |= 0x80
		}
		return b
	}
	try := func(cls string, y *big.Int, sign bool) {
		if b := yEnc(y, sign); b != nil {
			e.decodePub(cls, b)
		}
	}
	try("identity", big.NewInt(1), false)
	try("identity,sign-bit", big.NewInt(1), true)
	try("(0,-1)", new(big.Int).Sub(q, one), false)
	try("(0,-1),sign-bit", new(big.Int).Sub(q, one), true)
	try("y=0", new(big.Int), false)
	try("y=q", q, false)
	try("y=q+1", new(big.Int).Add(q, one), false)
	try("y=A.y+q", new(big.Int).Add(k.A.Y[0], q), k.A.X[0].Cmp(new(big.Int).Rsh(q, 1)) > 0)
	try("y=2^(8n-1)-1", new(big.Int).Sub(new(big.Int).Lsh(one, uint(8*nb-1)), one), false)
	for i := 0; i < e.c.Pick(40, 400); i++ {
		y := e.rng.BigBelow(q)
		if i%4 == 3 { // non-canonical representative when it fits
			y.Add(y, q)
		}
		try("random-y", y, e.rng.Bool())
	}
	_ = p
}
