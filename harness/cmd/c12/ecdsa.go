package main

import (
	"bytes"
	"fmt"
	"math/big"
	"sync"

	"github.com/consensys/gnark-crypto/signature"

	"verif/harness/adapt/groups"
	"verif/harness/adapt/sigs"
	"verif/harness/gen"
	"verif/harness/mon"
	"verif/harness/oracle/ocurve"
	"verif/harness/oracle/ofield"
	"verif/harness/oracle/osig"
)

type ecEnv struct {
	c   *mon.Ctx
	d   *sigs.ECDSA
	N   string
	p   *osig.Ec
	g   *groups.Group
	rng *gen.Rng
	nb  int

	mu    sync.Mutex
	seenR map[string]string // r -> message (nonce reuse across different messages)
	other *ecKey            // a second key, for the negative companion of every honest case
}

type ecKey struct {
	label string
	sk    signature.Signer
	pk    signature.PublicKey
	Q     ocurve.Pt
	d     *big.Int
}

func wpt(x, y *big.Int) ocurve.Pt {
	if x.Sign() == 0 && y.Sign() == 0 {
		return ocurve.Pt{Inf: true}
	}
	return ocurve.Pt{X: ofield.El{x}, Y: ofield.El{y}}
}

func runECDSA(c *mon.Ctx, d *sigs.ECDSA) {
	N := d.Name
	g := d.Group()
	if err := g.Bind(); err != nil {
		c.Inconclusive("%s: %v", N, err)
		return
	}
	if (d.FrBits+7)/8 != d.FrBytes || g.R.BitLen() != d.FrBits {
		c.Inconclusive("%s: fr.Bytes=%d fr.Bits=%d order bits=%d", N, d.FrBytes, d.FrBits, g.R.BitLen())
		return
	}
	e := &ecEnv{c: c, d: d, N: N, g: g, rng: gen.New(c.Seed, "c12/"+N), nb: d.FrBytes, seenR: map[string]string{}}
	e.p = &osig.Ec{C: g.C, G: g.G, N: g.R, P: g.P, FrBytes: d.FrBytes, FrBits: d.FrBits}
	c.Extra(N+".curve", map[string]any{"p_bits": g.P.BitLen(), "n_bits": d.FrBits, "sig_bytes": 2 * d.FrBytes, "recover": d.HasRecover, "mimc": d.MiMC != nil})

	hashes := []hcfg{hNil, hSha256}
	if d.MiMC != nil {
		hashes = append(hashes, hMimc(d.MiMC, d.FrBytes, g.R))
	}
	hashes = append(hashes, hSha512)

	// ---------- keys ----------
	var keys []ecKey
	nGen := c.Pick(2, 5)
	for i := 0; i < nGen; i++ {
		rd := &seedReader{rng: gen.New(c.Seed, fmt.Sprintf("c12/%s/key%d", N, i))}
		var sk signature.Signer
		var err error
		if c.Guard(N+"/GenerateKey/panic", func() string { return "seeded reader" }, func() { sk, err = d.GenerateKey(rd) }) {
			continue
		}
		if !c.Check("GenerateKey", N+"/GenerateKey/error", err == nil && sk != nil, func() string { return "err=" + errStr(err) }) {
			continue
		}
		if k, ok := e.checkKey(sk, fmt.Sprintf("generated#%d", i), rd.got); ok {
			keys = append(keys, k)
		}
		c.Class(N + "/key/generated")
		if i == 0 && d.Registry != nil {
			rd2 := &seedReader{rng: gen.New(c.Seed, fmt.Sprintf("c12/%s/key%d", N, i))}
			var sk2 signature.Signer
			if !c.Guard(N+"/signature.New/panic", func() string { return "registry" }, func() { sk2, err = d.Registry(rd2) }) {
				c.Check("signature.New", N+"/signature.New/differs-from-GenerateKey", err == nil && sk2 != nil && bytes.Equal(sk2.Bytes(), sk.Bytes()), func() string {
					return fmt.Sprintf("same reader stream: err=%s", errStr(err))
				})
				c.Class(N + "/key/registry")
			}
		}
	}
	if len(keys) == 0 {
		c.Inconclusive("%s: no usable key", N)
		return
	}
	// deserialised keys with chosen scalars: the public part is produced by the library encoder from oracle coordinates
	n := g.R
	crafted := []struct {
		cls string
		s   *big.Int
	}{{"scalar=1", big.NewInt(1)}, {"scalar=n-1", new(big.Int).Sub(n, one)}, {"scalar=2", big.NewInt(2)}, {"scalar=random", new(big.Int).Add(e.rng.BigBelow(new(big.Int).Sub(n, one)), one)},
		{"scalar=(n-1)/2", new(big.Int).Rsh(n, 1)}}
	if !c.Thorough() {
		crafted = crafted[:4]
	}
	for _, cr := range crafted {
		Q := g.C.Mul(g.G, cr.s)
		pub := d.MakePub(Q.X[0], Q.Y[0])
		buf := append(pub.Bytes(), cr.s.FillBytes(make([]byte, e.nb))...)
		sk := d.NewPriv()
		var err error
		if c.Guard(N+"/PrivateKey.SetBytes/panic/"+cr.cls, func() string { return hx(buf) }, func() { _, err = sk.SetBytes(buf) }) {
			continue
		}
		if !c.Check("PrivateKey.SetBytes", N+"/PrivateKey.SetBytes/valid-key-refused", err == nil, func() string {
			return fmt.Sprintf("%s buf=%s err=%s", cr.cls, hx(buf), errStr(err))
		}) {
			continue
		}
		if k, ok := e.checkKey(sk, cr.cls, nil); ok {
			c.Check("PrivateKey.SetBytes", N+"/PrivateKey.SetBytes/decoded-public-key-mismatch", g.C.Eq(k.Q, Q), func() string {
				return fmt.Sprintf("%s: decoded %s want %s", cr.cls, g.C.String(k.Q), g.C.String(Q))
			})
			keys = append(keys, k)
		}
		c.Class(N + "/key/deserialised/" + cr.cls)
	}

	if len(keys) > 1 {
		e.other = &keys[1]
	}
	// ---------- honest signatures ----------
	type triple struct {
		k   ecKey
		h   hcfg
		m   msgCase
		sig []byte
	}
	var triples []triple
	for ki, k := range keys {
		for _, h := range hashes {
			var ms []msgCase
			if h.mk == nil {
				ms = e.digests()
			} else {
				ms = messages(h, e.rng, c.Thorough())
			}
			if h.name == "sha512" {
				ms = ms[:3]
			}
			if ki >= 1 && !c.Thorough() {
				ms = []msgCase{ms[0], ms[len(ms)/2], ms[len(ms)-1]}
			}
			for _, m := range ms {
				triples = append(triples, triple{k: k, h: h, m: m})
			}
		}
	}
	par(len(triples), func(i int) {
		t := &triples[i]
		t.sig = e.signCase(t.k, t.h, t.m, i%5 == 0)
	})
	if d.MiMC != nil { // the hash refuses a non-canonical element: Sign must fail, Verify must refuse
		h := hMimc(d.MiMC, d.FrBytes, g.R)
		bad := append(new(big.Int).Set(g.R).FillBytes(make([]byte, e.nb)), make([]byte, e.nb)...)
		var err error
		var sig []byte
		if !c.Guard(N+"/Sign/panic/mimc", func() string { return "non-canonical element" }, func() { sig, err = keys[0].sk.Sign(bad, h.new()) }) {
			c.Check("Sign", N+"/Sign/no-error-when-hash-fails/mimc", err != nil, func() string { return "sig=" + hx(sig) })
		}
		var ok bool
		junk := append(big.NewInt(1).FillBytes(make([]byte, e.nb)), big.NewInt(1).FillBytes(make([]byte, e.nb))...)
		if !c.Guard(N+"/Verify/panic/hash-fails", func() string { return "" }, func() { ok, err = keys[0].pk.Verify(junk, bad, h.new()) }) {
			c.Check("Verify", N+"/Verify/accepted-invalid/hash-error/mimc", !ok, func() string { return "err=" + errStr(err) })
		}
		c.Class(N + "/Sign/mimc/non-canonical-element")
	}

	// ---------- tampering ----------
	var sel []int
	for i, t := range triples {
		if t.sig == nil || t.k.label != keys[0].label {
			continue
		}
		want := map[string][]string{"nil": {"exact", "long+16"}, "sha256": {"0B", "200B"}, "mimc": {"1-elements"}, "sha512": {"1B"}}[t.h.name]
		for _, w := range want {
			if t.m.cls == w {
				sel = append(sel, i)
			}
		}
	}
	if c.Thorough() {
		for i, t := range triples {
			if t.sig != nil && t.k.label == "scalar=n-1" && (t.m.cls == "1000B" || t.m.cls == "9-elements" || t.m.cls == "top-bit-clear") {
				sel = append(sel, i)
			}
		}
	}
	other := keys[len(keys)-1]
	for si, i := range sel {
		t := triples[i]
		e.tamper(t.k, t.h, t.m, t.sig, other, si == 0 || c.Thorough() && si < 4)
	}
	for _, h := range hashes[:2] {
		m := msgCase{"40B", e.rng.Bytes(40)}
		e.crafted(keys[0], h, m)
		e.arbitrary(keys[0], h, m, c.Pick(60, 1200))
	}
	if d.HasRecover {
		e.recover(keys, hashes)
	}
}

// digests: messages used as the digest itself (no hash object): every relation of length and leading bits to the order.
func (e *ecEnv) digests() []msgCase {
	nb, bits := e.nb, e.d.FrBits
	var out []msgCase
	add := func(cls string, b []byte) { out = append(out, msgCase{cls, b}) }
	add("empty", []byte{})
	add("1B", e.rng.Bytes(1))
	add("short-1", e.rng.Bytes(nb-1))
	ex := e.rng.Bytes(nb)
	ex[0] |= 0x80
	add("exact", ex)
	tc := e.rng.Bytes(nb)
	tc[0] &= 0x7f
	tc[0] |= 0x40
	add("top-bit-clear", tc)
	lz := e.rng.Bytes(nb)
	lz[0] = 0
	add("leading-zero-byte", lz)
	add("all-FF", bytes.Repeat([]byte{0xff}, nb))
	add("all-zero", make([]byte, nb))
	add("order", new(big.Int).Set(e.g.R).FillBytes(make([]byte, nb)))
	add("order-1", new(big.Int).Sub(e.g.R, one).FillBytes(make([]byte, nb)))
	if bits%8 != 0 { // exactly bitlen(n) significant bits
		v := e.rng.BigBits(bits)
		v.SetBit(v, bits-1, 1)
		add("bitlen=order-bits", v.FillBytes(make([]byte, nb)))
	}
	l16 := e.rng.Bytes(nb + 16)
	l16[0] |= 0x80
	add("long+16", l16)
	add("long+1", e.rng.Bytes(nb+1))
	lzl := e.rng.Bytes(nb + 9)
	lzl[0], lzl[1] = 0, 0
	add("long-leading-zero-bytes", lzl)
	add("200B", e.rng.Bytes(200))
	return out
}

// zOf returns the digest of (h, msg) and the integer the equation uses. The integer is the FIPS 186-4 truncation; when the
// library's exported HashToInt differs from it the difference is recorded under its own key and - if the library value is
// the "count only significant bits" variant - that value is used for the decision, so that the deviation does not hide
// other failures. alt=true when the variant was used.
func (e *ecEnv) zOf(h hcfg, msg []byte) (z *big.Int, digest []byte, alt bool, err error) {
	digest = msg
	if h.mk != nil {
		hh := h.new()
		if _, err = hh.Write(msg); err != nil {
			return nil, nil, false, err
		}
		digest = hh.Sum(nil)
	}
	zF := e.p.HashToInt(digest)
	var zL *big.Int
	if e.c.Guard(e.N+"/HashToInt/panic", func() string { return hx(digest) }, func() { zL = e.d.HashToInt(append([]byte(nil), digest...)) }) {
		return zF, digest, false, nil
	}
	if zL.Cmp(zF) == 0 {
		e.c.Eval("HashToInt", 1)
		return zF, digest, false, nil
	}
	zA := e.p.HashToIntBitLen(digest)
	dcls := "digest-longer-than-order"
	if len(digest)*8 <= e.d.FrBits {
		dcls = "digest-not-longer-than-order"
	}
	if zL.Cmp(zA) == 0 {
		e.c.Check("HashToInt", e.N+"/HashToInt/not-the-leftmost-bits/"+h.name+"/"+dcls, false, func() string {
			return fmt.Sprintf("HashToInt(%s) (%d bytes, order of %d bits) = %s; the leftmost %d bits of the digest are %s (the library shifts by the number of significant bits in excess, so leading zero bits of the digest are not counted)",
				hx(digest), len(digest), e.d.FrBits, zL.Text(16), e.d.FrBits, zF.Text(16))
		})
		return zA, digest, true, nil
	}
	e.c.Check("HashToInt", e.N+"/HashToInt/mismatch/"+h.name, false, func() string {
		return fmt.Sprintf("HashToInt(%s) = %s want %s", hx(digest), zL.Text(16), zF.Text(16))
	})
	return zF, digest, false, nil
}

func (e *ecEnv) checkKey(sk signature.Signer, label string, seed []byte) (ecKey, bool) {
	c, N, nb, g := e.c, e.N, e.nb, e.g
	k := ecKey{label: label, sk: sk}
	b := sk.Bytes()
	k.pk = e.d.PrivPub(sk)
	pb := k.pk.Bytes()
	if !c.Check("PrivateKey.Bytes", N+"/PrivateKey.Bytes/layout", len(b) == len(pb)+nb && bytes.Equal(b[:len(pb)], pb), func() string {
		return fmt.Sprintf("%s: private %s public %s", label, hx(b), hx(pb))
	}) {
		return k, false
	}
	x, y := e.d.PubXY(k.pk)
	k.Q = wpt(x, y)
	k.d = new(big.Int).SetBytes(b[len(pb):])
	desc := func() string { return fmt.Sprintf("%s: private key bytes %s Q=%s", label, hx(b), g.C.String(k.Q)) }
	if !c.Check("key", N+"/key/public-key-invalid", !k.Q.Inf && g.C.IsOnCurve(k.Q), desc) {
		return k, false
	}
	c.Check("key", N+"/key/scalar-out-of-range", k.d.Sign() > 0 && k.d.Cmp(g.R) < 0, desc)
	want := g.C.Mul(g.G, k.d)
	c.Check("key", N+"/key/public-key-is-not-scalar-times-base", g.C.Eq(want, k.Q), func() string { return desc() + " want " + g.C.String(want) })
	if seed != nil && len(seed) > 0 {
		// documented derivation (FIPS 186-4 B.4.1 / B.5.1 "extra random bits"): d = (c mod (n-1)) + 1 for the bytes read
		w := new(big.Int).SetBytes(seed)
		w.Mod(w, new(big.Int).Sub(g.R, one)).Add(w, one)
		c.Check("GenerateKey", N+"/GenerateKey/derivation-mismatch", w.Cmp(k.d) == 0, func() string {
			return fmt.Sprintf("bytes read %s: scalar %s want %s", hx(seed), k.d.Text(16), w.Text(16))
		})
		c.Check("GenerateKey", N+"/GenerateKey/too-few-random-bytes", len(seed)*8 >= e.d.FrBits, func() string { return fmt.Sprintf("read %d bytes", len(seed)) })
	}
	pub := sk.Public()
	px, py := e.d.PubXY(pub)
	c.Check("Public", N+"/Public/differs-from-field", px.Cmp(x) == 0 && py.Cmp(y) == 0, desc)
	c.Check("Equal", N+"/PublicKey.Equal/false-on-same-key", pub.Equal(k.pk) && k.pk.Equal(pub), desc)
	// the key returned by Public() is the caller's: decoding another key into it must not reach the signer (clone)
	{
		s2 := e.d.NewPriv()
		if _, err := s2.SetBytes(b); err == nil {
			other := e.d.NewPriv()
			ob := append([]byte(nil), b...)
			// a different valid key pair: the generator with scalar 1 has the documented layout pub||scalar
			if gk := e.smallKeyBytes(len(pb)); gk != nil {
				ob = gk
			}
			if _, err := other.SetBytes(ob); err == nil {
				foreign := other.Public().Bytes()
				before := s2.Public().Bytes()
				scratch := s2.Public()
				_, err := scratch.SetBytes(foreign)
				after := s2.Public().Bytes()
				c.Check("Public", N+"/Public/returned-key-aliases-the-signer", err != nil || (bytes.Equal(after, before) && bytes.Equal(s2.Bytes(), b)), func() string {
					return desc() + fmt.Sprintf(": after SetBytes(%s) on the value returned by Public(), Public() = %s (was %s)", hx(foreign), hx(after), hx(before))
				})
			}
		}
	}
	// other byte strings that start like a point encoding: the key followed by a signature-sized tail, and the two
	// coordinates written out in full (the uncompressed form of a point where PublicKey.Bytes is the compressed one).
	// Whatever is accepted is the encoding of the key: Bytes() gives back exactly the bytes reported as consumed.
	{
		h := len(pb)
		full := append(x.FillBytes(make([]byte, (g.P.BitLen()+7)/8)), y.FillBytes(make([]byte, (g.P.BitLen()+7)/8))...)
		alts := [][]byte{append(append([]byte(nil), pb...), bytes.Repeat([]byte{0x5c}, 2*h)...), full, append(append([]byte(nil), full...), bytes.Repeat([]byte{0x11}, h)...)}
		for ai, in := range alts {
			p2 := e.d.NewPub()
			var n int
			var err error
			if c.Guard(fmt.Sprintf("%s/PublicKey.SetBytes/panic/alternative-input%d", N, ai), func() string { return hx(in) }, func() { n, err = p2.SetBytes(in) }) {
				continue
			}
			c.Check("PublicKey.SetBytes", fmt.Sprintf("%s/PublicKey.SetBytes/accepted-bytes-are-not-the-encoding/alternative-input%d", N, ai),
				err != nil || (n <= len(in) && bytes.Equal(p2.Bytes(), in[:n])), func() string {
					return fmt.Sprintf("%s: SetBytes(%s) returned n=%d err=nil, but the decoded key encodes as %s", label, hx(in), n, hx(p2.Bytes()))
				})
		}
	}
	for _, extra := range []int{0, 1, 40} {
		in := append(append([]byte(nil), pb...), bytes.Repeat([]byte{0xA5}, extra)...)
		p2 := e.d.NewPub()
		var n int
		var err error
		if c.Guard(fmt.Sprintf("%s/PublicKey.SetBytes/panic/trailing=%d", N, extra), func() string { return hx(in) }, func() { n, err = p2.SetBytes(in) }) {
			continue
		}
		ok := err == nil
		if ok {
			qx, qy := e.d.PubXY(p2)
			ok = qx.Cmp(x) == 0 && qy.Cmp(y) == 0 && bytes.Equal(p2.Bytes(), pb)
		}
		c.Check("PublicKey.SetBytes", fmt.Sprintf("%s/PublicKey.SetBytes/round-trip/trailing=%d", N, extra), ok, func() string { return desc() + " err=" + errStr(err) })
		c.Check("PublicKey.SetBytes", fmt.Sprintf("%s/PublicKey.SetBytes/consumed-length/trailing=%d", N, extra), err != nil || n == len(pb), func() string {
			return fmt.Sprintf("%s: returned %d, the encoding (PublicKey.Bytes) has %d bytes", label, n, len(pb))
		})
	}
	{
		p2 := e.d.NewPub()
		var err error
		if !c.Guard(N+"/PublicKey.SetBytes/panic/short", func() string { return "" }, func() { _, err = p2.SetBytes(pb[:len(pb)-1]) }) {
			c.Check("PublicKey.SetBytes", N+"/PublicKey.SetBytes/short-buffer-accepted", err != nil, desc)
		}
		if !c.Guard(N+"/PublicKey.SetBytes/panic/empty", func() string { return "" }, func() { _, err = p2.SetBytes(nil) }) {
			c.Check("PublicKey.SetBytes", N+"/PublicKey.SetBytes/short-buffer-accepted", err != nil, desc)
		}
	}
	for _, extra := range []int{0, 1, 40} {
		in := append(append([]byte(nil), b...), bytes.Repeat([]byte{0x5A}, extra)...)
		s2 := e.d.NewPriv()
		var n int
		var err error
		if c.Guard(fmt.Sprintf("%s/PrivateKey.SetBytes/panic/trailing=%d", N, extra), func() string { return fmt.Sprintf("%d-byte encoding followed by %d more bytes", len(b), extra) }, func() { n, err = s2.SetBytes(in) }) {
			continue
		}
		c.Check("PrivateKey.SetBytes", fmt.Sprintf("%s/PrivateKey.SetBytes/round-trip/trailing=%d", N, extra), err == nil && bytes.Equal(s2.Bytes(), b), func() string {
			return desc() + " err=" + errStr(err) + " re-encoded " + hx(s2.Bytes())
		})
		c.Check("PrivateKey.SetBytes", fmt.Sprintf("%s/PrivateKey.SetBytes/consumed-length/trailing=%d", N, extra), err != nil || n == len(b), func() string {
			return fmt.Sprintf("%s: returned %d, encoding has %d bytes", label, n, len(b))
		})
	}
	{
		s2 := e.d.NewPriv()
		var err error
		if !c.Guard(N+"/PrivateKey.SetBytes/panic/short", func() string { return "" }, func() { _, err = s2.SetBytes(b[:len(b)-1]) }) {
			c.Check("PrivateKey.SetBytes", N+"/PrivateKey.SetBytes/short-buffer-accepted", err != nil, desc)
		}
	}
	return k, true
}

// smallKeyBytes: the documented private-key layout (x || y || scalar) of the key with scalar 7.
func (e *ecEnv) smallKeyBytes(lenPub int) []byte {
	q := e.g.C.Mul(e.g.G, big.NewInt(7))
	if q.Inf || lenPub%2 != 0 || len(q.X) != 1 {
		return nil
	}
	h := lenPub / 2
	if q.X[0].BitLen() > 8*h || q.Y[0].BitLen() > 8*h {
		return nil
	}
	out := append(q.X[0].FillBytes(make([]byte, h)), q.Y[0].FillBytes(make([]byte, h))...)
	return append(out, big.NewInt(7).FillBytes(make([]byte, e.nb))...)
}

func (e *ecEnv) noteR(r *big.Int, k ecKey, msg []byte) {
	key := k.label + "/" + r.Text(16)
	e.mu.Lock()
	prev, ok := e.seenR[key]
	e.seenR[key] = hx(msg)
	e.mu.Unlock()
	if ok {
		e.c.Check("Sign", e.N+"/Sign/nonce-reused-for-different-messages", prev == hx(msg), func() string {
			return fmt.Sprintf("key %s: the same r=%s for messages %s and %s", k.label, r.Text(16), prev, hx(msg))
		})
	}
}

// signCase: an honest signature must satisfy the textbook equation (oracle) and be accepted by Verify.
func (e *ecEnv) signCase(k ecKey, h hcfg, m msgCase, dirty bool) []byte {
	c, N := e.c, e.N
	cls := h.name + "/" + m.cls
	c.Current(N + " sign " + k.label + " " + cls)
	msg := append([]byte(nil), m.m...)
	desc := func() string {
		return fmt.Sprintf("key %s (%s) hash=%s msg(%s)=%s", k.label, hx(k.sk.Bytes()), h.name, m.cls, hx(m.m))
	}
	z, _, _, herr := e.zOf(h, m.m)
	var sig []byte
	var err error
	hh := h.new()
	if dirty {
		hh = h.dirty()
	}
	if c.Guard(N+"/Sign/panic/"+h.name, desc, func() { sig, err = k.sk.Sign(msg, hh) }) {
		return nil
	}
	c.Class(N + "/Sign/" + k.label + "/" + cls)
	if herr != nil {
		c.Check("Sign", N+"/Sign/no-error-when-hash-fails/"+h.name, err != nil, desc)
		return nil
	}
	if !c.Check("Sign", N+"/Sign/error/"+h.name, err == nil, func() string { return desc() + " err=" + errStr(err) }) {
		return nil
	}
	c.Check("Sign", N+"/Sign/message-modified", bytes.Equal(msg, m.m), desc)
	r, s, why := e.p.ParseSig(sig)
	if !c.Check("Sign", N+"/Sign/malformed-signature/"+why, why == "", func() string { return desc() + " sig=" + hx(sig) }) {
		return nil
	}
	e.noteR(r, k, m.m)
	dec, _ := e.p.VerifyZ(k.Q, r, s, z)
	if !c.Check("Sign", N+"/Sign/signature-fails-the-equation/"+h.name, dec.Accept, func() string {
		return desc() + " sig=" + hx(sig) + " z=" + z.Text(16) + " oracle: " + dec.Reason
	}) {
		return nil
	}
	var ok bool
	var verr error
	sigIn := append([]byte(nil), sig...)
	vh := h.new()
	if dirty {
		vh = h.dirty()
	}
	if c.Guard(N+"/Verify/panic/honest", desc, func() { ok, verr = k.pk.Verify(sigIn, msg, vh) }) {
		return nil
	}
	c.Check("Verify", N+"/Verify/honest-rejected/"+h.name, ok && verr == nil, func() string { return desc() + " sig=" + hx(sig) + " err=" + errStr(verr) })
	c.Check("Verify", N+"/Verify/input-modified", bytes.Equal(sigIn, sig) && bytes.Equal(msg, m.m), desc)
	n, rb, sb, err := e.d.SigSetBytes(sig)
	if c.Check("Signature.SetBytes", N+"/Signature.SetBytes/honest-refused", err == nil, func() string { return desc() + " err=" + errStr(err) }) {
		c.Check("Signature.SetBytes", N+"/Signature.SetBytes/consumed-length", n == len(sig), func() string { return fmt.Sprintf("returned %d for %d bytes", n, len(sig)) })
		c.Check("Signature.Bytes", N+"/Signature.Bytes/round-trip", bytes.Equal(e.d.SigBytes(rb, sb), sig), desc)
	}
	c.SampleOnce(N, map[string]any{"instance": N, "key": k.label, "hash": h.name, "msg_class": m.cls, "signature": hx(sig), "oracle": "equation-holds"})
	// negative companions of every honest case: one signature bit flipped, and the same signature under another key
	e.decide("companion/sig-bit-flip", k.pk, flipBit(sig, (int(sig[0])<<8|int(sig[1]))%(8*len(sig))), m.m, h)
	if e.other != nil && e.other.label != k.label {
		e.decide("companion/other-key", e.other.pk, sig, m.m, h)
	}
	return sig
}

// decide: one candidate (public key struct, signature bytes, message, hash) through library and oracle.
func (e *ecEnv) decide(cls string, pk signature.PublicKey, sig, msg []byte, h hcfg) {
	c, N := e.c, e.N
	x, y := e.d.PubXY(pk)
	Q := wpt(x, y)
	var dec osig.Decision
	r, s, why := e.p.ParseSig(sig)
	alt := false
	var zc *big.Int
	if why != "" {
		dec = osig.Decision{Reason: why}
	} else {
		z, _, a, herr := e.zOf(h, msg)
		alt = a
		if herr != nil {
			dec = osig.Decision{Reason: "hash-error"}
		} else {
			dec, _ = e.p.VerifyZ(Q, r, s, z)
			zc = z
			if a { // how many decisions depend on the truncation variant
				if d2, _ := e.p.VerifyZ(Q, r, s, e.p.HashToInt(digestOf(h, msg))); d2.Accept != dec.Accept {
					c.AddExtra("ecdsa_decisions_that_differ_under_fips_truncation", 1)
				}
			}
		}
	}
	desc := func() string {
		return fmt.Sprintf("class=%s hash=%s Q=(%s,%s) sig=%s msg=%s truncation-variant=%v", cls, h.name, x.Text(16), y.Text(16), hx(sig), hx(msg), alt)
	}
	// oracle self-check on a deterministic sample: simultaneous multiplication against two separate multiplications
	if zc != nil && (dec.Accept || sig[3]%8 == 0) {
		si := new(big.Int).ModInverse(s, e.g.R)
		u1 := new(big.Int).Mul(zc, si)
		u2 := new(big.Int).Mul(r, si)
		X := e.g.C.Add(e.g.C.Mul(e.g.G, u1.Mod(u1, e.g.R)), e.g.C.Mul(Q, u2.Mod(u2, e.g.R)))
		acc := !X.Inf && new(big.Int).Mod(X.X[0], e.g.R).Cmp(r) == 0
		if acc != dec.Accept {
			c.Inconclusive("%s: the two evaluations of the verification equation disagree in the oracle on %s", N, desc())
			return
		}
		c.AddExtra("oracle_equation_cross_checks", 1)
	}
	var ok bool
	var err error
	sigIn, msgIn := append([]byte(nil), sig...), append([]byte(nil), msg...)
	if sig == nil {
		sigIn = nil
	}
	if c.Guard(N+"/Verify/panic/"+cls, desc, func() { ok, err = pk.Verify(sigIn, msgIn, h.new()) }) {
		return
	}
	if dec.Accept {
		c.Check("Verify", N+"/Verify/rejected-valid/"+cls, ok, func() string { return desc() + " err=" + errStr(err) + " (oracle: equation holds)" })
	} else {
		c.Check("Verify", N+"/Verify/accepted-invalid/"+dec.Reason+"/"+cls, !ok, func() string { return desc() + " (oracle: " + dec.Reason + ")" })
	}
	c.Check("Verify", N+"/Verify/true-with-error", !(ok && err != nil), desc)
	c.Class(N + "/Verify/" + h.name + "/" + cls + "/" + dec.Reason)
}

func digestOf(h hcfg, msg []byte) []byte {
	if h.mk == nil {
		return msg
	}
	hh := h.new()
	hh.Write(msg)
	return hh.Sum(nil)
}

func (e *ecEnv) tamper(k ecKey, h hcfg, m msgCase, sig []byte, other ecKey, allBits bool) {
	c, N, nb := e.c, e.N, e.nb
	c.Current(N + " tamper " + h.name + "/" + m.cls)
	pos := positions(e.rng, len(sig)*8, c.Pick(40, 256), allBits)
	par(len(pos), func(i int) {
		part := "r"
		if pos[i] >= 8*nb {
			part = "s"
		}
		e.decide("sig-bit-flip/"+part, k.pk, flipBit(sig, pos[i]), m.m, h)
	})
	c.AddExtra("ecdsa_sig_bit_flips", int64(len(pos)))
	// message bits: with no hash object, bits beyond the truncation do not change z and the signature stays valid - the oracle decides
	mpos := positions(e.rng, len(m.m)*8, c.Pick(32, 256), false)
	par(len(mpos), func(i int) {
		cls := "msg-bit-flip"
		if h.mk == nil && mpos[i] >= e.d.FrBits {
			cls = "msg-bit-flip/beyond-truncation"
		}
		e.decide(cls, k.pk, sig, flipBit(m.m, mpos[i]), h)
	})
	if h.block == 0 {
		e.decide("msg-extended", k.pk, sig, append(append([]byte(nil), m.m...), 0), h)
		e.decide("msg-prefixed", k.pk, sig, append([]byte{0}, m.m...), h)
		if len(m.m) > 0 {
			e.decide("msg-truncated", k.pk, sig, m.m[:len(m.m)-1], h)
		}
	} else if len(m.m)%h.block == 0 {
		e.decide("msg-extended-by-zero-element", k.pk, sig, append(append([]byte(nil), m.m...), make([]byte, h.block)...), h)
	}
	// public key bits
	pb := k.pk.Bytes()
	kpos := positions(e.rng, len(pb)*8, c.Pick(32, 256), allBits && len(pb)*8 <= 512)
	par(len(kpos), func(i int) {
		mut := flipBit(pb, kpos[i])
		if pk2, ok := e.decodePub("pk-bit-flip", mut); ok {
			e.decide("pk-bit-flip", pk2, sig, m.m, h)
		}
	})
	e.decide("other-key", other.pk, sig, m.m, h)
	if h.name == "sha256" {
		e.decide("other-hash/sha512", k.pk, sig, m.m, hSha512)
		e.decide("other-hash/none", k.pk, sig, m.m, hNil)
	}
	// other valid points as the key: -Q, 2Q, G
	g := e.g
	for _, a := range []struct {
		cls string
		p   ocurve.Pt
	}{{"Q=-Q", g.C.Neg(k.Q)}, {"Q=2Q", g.C.Double(k.Q)}, {"Q=G", g.G}} {
		if !a.p.Inf {
			e.decide("pk-struct/"+a.cls, e.d.MakePub(a.p.X[0], a.p.Y[0]), sig, m.m, h)
		}
	}
}

// decodePub: a mutated public-key encoding either fails to decode, or decodes to a valid key (on the curve, of order n)
// whose encoding is exactly the given bytes.
func (e *ecEnv) decodePub(cls string, enc []byte) (signature.PublicKey, bool) {
	c, N, g := e.c, e.N, e.g
	pk := e.d.NewPub()
	var err error
	if c.Guard(N+"/PublicKey.SetBytes/panic/"+cls, func() string { return hx(enc) }, func() { _, err = pk.SetBytes(enc) }) {
		return nil, false
	}
	if err != nil {
		c.Class(N + "/PublicKey.SetBytes/" + cls + "/refused")
		c.Eval("PublicKey.SetBytes", 1)
		return nil, false
	}
	x, y := e.d.PubXY(pk)
	Q := wpt(x, y)
	c.Class(N + "/PublicKey.SetBytes/" + cls + "/decoded")
	if Q.Inf {
		// the point at infinity is not a public key; nothing to verify under it
		c.Class(N + "/PublicKey.SetBytes/" + cls + "/decoded-infinity")
		return nil, false
	}
	ok := g.C.IsOnCurve(Q) && g.C.Mul(Q, g.R).Inf
	if !c.Check("PublicKey.SetBytes", N+"/PublicKey.SetBytes/accepted-invalid-point/"+cls, ok, func() string {
		return fmt.Sprintf("%s decoded to (%s,%s): on curve %v", hx(enc), x.Text(16), y.Text(16), g.C.IsOnCurve(Q))
	}) {
		return nil, false
	}
	if !c.Check("PublicKey.SetBytes", N+"/PublicKey.SetBytes/accepted-non-canonical-encoding/"+cls, bytes.Equal(pk.Bytes(), enc[:len(pk.Bytes())]), func() string {
		return fmt.Sprintf("%s decoded to a point that encodes as %s", hx(enc), hx(pk.Bytes()))
	}) {
		return nil, false
	}
	return pk, true
}

func (e *ecEnv) sigOf(r, s *big.Int) []byte {
	if r.BitLen() > 8*e.nb || s.BitLen() > 8*e.nb || r.Sign() < 0 || s.Sign() < 0 {
		return nil
	}
	return append(r.FillBytes(make([]byte, e.nb)), s.FillBytes(make([]byte, e.nb))...)
}

func (e *ecEnv) crafted(k ecKey, h hcfg, m msgCase) {
	c, N, nb, p, g := e.c, e.N, e.nb, e.p, e.g
	c.Current(N + " crafted " + h.name)
	n := g.R
	z, _, _, herr := e.zOf(h, m.m)
	if herr != nil {
		return
	}
	// an honest-looking signature made by the oracle with its own nonce
	mk := func(kk *big.Int) (r, s *big.Int) {
		R := g.C.Mul(g.G, kk)
		r = new(big.Int).Mod(R.X[0], n)
		s = new(big.Int).Mul(r, k.d)
		s.Add(s, z).Mul(s, new(big.Int).ModInverse(kk, n)).Mod(s, n)
		return
	}
	var r, s *big.Int
	for {
		r, s = mk(new(big.Int).Add(e.rng.BigBelow(new(big.Int).Sub(n, one)), one))
		if r.Sign() != 0 && s.Sign() != 0 {
			break
		}
	}
	type cand struct {
		cls string
		sig []byte
	}
	var cs []cand
	add := func(cls string, sig []byte) {
		if sig != nil || cls == "len=nil" {
			cs = append(cs, cand{cls, sig})
		}
	}
	full := new(big.Int).Sub(new(big.Int).Lsh(one, uint(8*nb)), one)
	add("oracle-signed", e.sigOf(r, s))
	add("s=n-s(also-valid)", e.sigOf(r, new(big.Int).Sub(n, s)))
	add("r=n-r", e.sigOf(new(big.Int).Sub(n, r), s))
	for _, v := range []struct {
		cls string
		v   *big.Int
	}{{"0", new(big.Int)}, {"n", n}, {"n+1", new(big.Int).Add(n, one)}, {"n-1", new(big.Int).Sub(n, one)}, {"1", big.NewInt(1)}, {"2^(8n)-1", full}} {
		add("r="+v.cls, e.sigOf(v.v, s))
		add("s="+v.cls, e.sigOf(r, v.v))
	}
	add("r=r+n", e.sigOf(new(big.Int).Add(r, n), s))
	add("s=s+n", e.sigOf(r, new(big.Int).Add(s, n)))
	add("r|top-bit", e.sigOf(new(big.Int).SetBit(new(big.Int).Set(r), 8*nb-1, 1), s))
	add("s|top-bit", e.sigOf(r, new(big.Int).SetBit(new(big.Int).Set(s), 8*nb-1, 1)))
	add("r+1", e.sigOf(new(big.Int).Add(r, one), s))
	add("s+1", e.sigOf(r, new(big.Int).Add(s, one)))
	add("swapped", e.sigOf(s, r))
	add("r=s=1", e.sigOf(one, one))
	hon := e.sigOf(r, s)
	add("len=nil", nil)
	add("len=0", []byte{})
	add("len=1", hon[:1])
	add("len=n", hon[:nb])
	add("len=2n-1", hon[:2*nb-1])
	add("len=2n+1", append(append([]byte(nil), hon...), 0))
	add("len=2n+1,leading-zero", append([]byte{0}, hon...))
	add("len=4n", append(append([]byte(nil), hon...), hon...))
	add("all-zero", make([]byte, 2*nb))
	add("all-FF", bytes.Repeat([]byte{0xff}, 2*nb))
	// X = [z/s]G + [r/s]Q = O: r = -z/d
	{
		ri := new(big.Int).ModInverse(k.d, n)
		rr := new(big.Int).Mul(z, ri)
		rr.Neg(rr).Mod(rr, n)
		if rr.Sign() != 0 {
			add("X=infinity", e.sigOf(rr, new(big.Int).Add(e.rng.BigBelow(new(big.Int).Sub(n, one)), one)))
		}
	}
	par(len(cs), func(i int) {
		e.decide("crafted/"+cs[i].cls, k.pk, cs[i].sig, m.m, h)
		e.sigFormat("crafted/"+cs[i].cls, cs[i].sig)
	})
	// existential forgery for a chosen digest (no hash object): X = [u1]G + [u2]Q, r = x(X) mod n, s = r/u2, z = u1 s
	if h.mk == nil {
		nf := c.Pick(6, 40)
		type fg struct {
			sig, msg []byte
		}
		var fs []fg
		for i := 0; i < nf; i++ {
			u1 := e.rng.BigBelow(n)
			u2 := new(big.Int).Add(e.rng.BigBelow(new(big.Int).Sub(n, one)), one)
			X := g.C.Add(g.C.Mul(g.G, u1), g.C.Mul(k.Q, u2))
			if X.Inf {
				continue
			}
			rr := new(big.Int).Mod(X.X[0], n)
			if rr.Sign() == 0 {
				continue
			}
			ss := new(big.Int).Mul(rr, new(big.Int).ModInverse(u2, n))
			ss.Mod(ss, n)
			zz := new(big.Int).Mul(u1, ss)
			zz.Mod(zz, n)
			// as a digest of exactly bitlen(n) bits when n is byte aligned, else left-aligned so that the leftmost bits are zz
			dg := new(big.Int).Lsh(zz, uint(8*nb-e.d.FrBits)).FillBytes(make([]byte, nb))
			if p.HashToInt(dg).Cmp(zz) != 0 {
				continue
			}
			fs = append(fs, fg{e.sigOf(rr, ss), dg})
		}
		par(len(fs), func(i int) { e.decide("crafted/existential-forgery-for-chosen-digest", k.pk, fs[i].sig, fs[i].msg, h) })
		// commitment with abscissa in [n, p): the reduction of x(X) modulo n matters (never met by honest signatures when p ~ n)
		for i := 0; i < c.Pick(2, 8); i++ {
			if w, ok := e.wrapCase(); ok {
				pk := e.d.MakePub(w.Q.X[0], w.Q.Y[0])
				e.decide("crafted/x(X)>=n", pk, e.sigOf(w.r, w.s), w.digest, h)
				e.decide("crafted/x(X)>=n,r-not-reduced", pk, e.sigOf(w.X.X[0], w.s), w.digest, h)
			}
		}
	}
}

// wrapCase builds a triple that the equation accepts and whose commitment X has an abscissa in [n, p) (so that
// r = x(X) - n): X is lifted from x = n + j, the key is Q = u2^-1 (X - u1 G) for random u1, u2 (nobody knows its
// discrete logarithm), s = r/u2, u1 = z/s for a random digest z of FrBytes-1 bytes (shorter than the order, so no
// truncation rule applies). Only possible when p > n; ok=false otherwise.
type wrapped struct {
	Q, X   ocurve.Pt
	r, s   *big.Int
	digest []byte
}

func (e *ecEnv) wrapCase() (wrapped, bool) {
	g, n := e.g, e.g.R
	if g.P.Cmp(n) <= 0 {
		return wrapped{}, false
	}
	for j := int64(0); j < 400; j++ {
		x := new(big.Int).Add(n, big.NewInt(j))
		if x.Cmp(g.P) >= 0 {
			return wrapped{}, false
		}
		X, ok := g.C.LiftX(ofield.El{x})
		if !ok {
			continue
		}
		if e.rng.Bool() {
			X = g.C.Neg(X)
		}
		r := new(big.Int).Sub(x, n)
		if r.Sign() == 0 {
			continue
		}
		for try := 0; try < 8; try++ {
			u2 := new(big.Int).Add(e.rng.BigBelow(new(big.Int).Sub(n, one)), one)
			s := new(big.Int).Mul(r, new(big.Int).ModInverse(u2, n))
			s.Mod(s, n)
			z := e.rng.BigBits(8 * (e.nb - 1)) // a digest one byte shorter than the order: no truncation under any rule
			if s.Sign() == 0 || 8*(e.nb-1) > e.d.FrBits {
				continue
			}
			u1 := new(big.Int).Mul(z, new(big.Int).ModInverse(s, n))
			u1.Mod(u1, n)
			Q := g.C.Mul(g.C.Sub(X, g.C.Mul(g.G, u1)), new(big.Int).ModInverse(u2, n))
			if Q.Inf {
				continue
			}
			return wrapped{Q: Q, X: X, r: r, s: s, digest: z.FillBytes(make([]byte, e.nb-1))}, true
		}
	}
	return wrapped{}, false
}

func (e *ecEnv) sigFormat(cls string, sig []byte) {
	c, N := e.c, e.N
	r, s, why := e.p.ParseSig(sig)
	var n int
	var rb, sb []byte
	var err error
	if c.Guard(N+"/Signature.SetBytes/panic/"+cls, func() string { return hx(sig) }, func() { n, rb, sb, err = e.d.SigSetBytes(sig) }) {
		return
	}
	if why != "" {
		c.Check("Signature.SetBytes", N+"/Signature.SetBytes/accepted-invalid/"+why, err != nil, func() string { return cls + " " + hx(sig) })
		return
	}
	if c.Check("Signature.SetBytes", N+"/Signature.SetBytes/valid-refused/"+cls, err == nil, func() string { return hx(sig) + " err=" + errStr(err) }) {
		c.Check("Signature.SetBytes", N+"/Signature.SetBytes/decoded-mismatch", new(big.Int).SetBytes(rb).Cmp(r) == 0 && new(big.Int).SetBytes(sb).Cmp(s) == 0 && n == len(sig), func() string {
			return fmt.Sprintf("%s: r=%x s=%x n=%d", hx(sig), rb, sb, n)
		})
	}
}

func (e *ecEnv) arbitrary(k ecKey, h hcfg, m msgCase, n int) {
	nb := e.nb
	e.c.Current(e.N + " arbitrary " + h.name)
	sigs := make([][]byte, n)
	cls := make([]string, n)
	for i := range sigs {
		if i%2 == 0 {
			sigs[i], cls[i] = e.rng.Bytes(2*nb), "random-bytes"
		} else {
			sigs[i], cls[i] = e.sigOf(new(big.Int).Add(e.rng.BigBelow(new(big.Int).Sub(e.g.R, one)), one), new(big.Int).Add(e.rng.BigBelow(new(big.Int).Sub(e.g.R, one)), one)), "random-in-range"
		}
	}
	par(n, func(i int) {
		e.decide("arbitrary/"+cls[i], k.pk, sigs[i], m.m, h)
		e.sigFormat("arbitrary/"+cls[i], sigs[i])
	})
	e.c.AddExtra("ecdsa_arbitrary_candidates", int64(n))
}

// recover: SignForRecover / RecoverFrom (SEC 1 4.1.6).
func (e *ecEnv) recover(keys []ecKey, hashes []hcfg) {
	c, N, g, p := e.c, e.N, e.g, e.p
	type rc struct {
		k ecKey
		h hcfg
		m msgCase
	}
	var cases []rc
	for ki, k := range keys {
		for _, h := range hashes {
			var ms []msgCase
			if h.mk == nil {
				ms = e.digests()
			} else {
				ms = messages(h, e.rng, false)[:5]
			}
			if ki > 0 && !c.Thorough() {
				ms = ms[:2]
			}
			for _, m := range ms {
				cases = append(cases, rc{k, h, m})
			}
		}
	}
	type honest struct {
		k      ecKey
		digest []byte
		z      *big.Int
		v      uint
		r, s   *big.Int
	}
	hs := make([]*honest, len(cases))
	par(len(cases), func(i int) {
		k, h, m := cases[i].k, cases[i].h, cases[i].m
		desc := func() string { return fmt.Sprintf("key %s hash=%s msg(%s)=%s", k.label, h.name, m.cls, hx(m.m)) }
		z, digest, _, herr := e.zOf(h, m.m)
		if herr != nil {
			return
		}
		var v uint
		var r, s *big.Int
		var err error
		if c.Guard(N+"/SignForRecover/panic", desc, func() { v, r, s, err = e.d.SignForRecover(k.sk, append([]byte(nil), m.m...), h.new()) }) {
			return
		}
		c.Class(N + "/SignForRecover/" + h.name + "/" + m.cls)
		if !c.Check("SignForRecover", N+"/SignForRecover/error", err == nil && r != nil && s != nil, func() string { return desc() + " err=" + errStr(err) }) {
			return
		}
		if !c.Check("SignForRecover", N+"/SignForRecover/out-of-range", r.Sign() > 0 && r.Cmp(g.R) < 0 && s.Sign() > 0 && s.Cmp(g.R) < 0, desc) {
			return
		}
		e.noteR(r, k, m.m)
		dec, X := p.VerifyZ(k.Q, r, s, z)
		if !c.Check("SignForRecover", N+"/SignForRecover/signature-fails-the-equation/"+h.name, dec.Accept, func() string {
			return fmt.Sprintf("%s r=%s s=%s z=%s", desc(), r.Text(16), s.Text(16), z.Text(16))
		}) {
			return
		}
		// v = (x(X) div n) << 1 | parity(y(X)) for the commitment X = kG (which the equation reconstructs)
		wv := uint(new(big.Int).Div(X.X[0], g.R).Uint64())<<1 | X.Y[0].Bit(0)
		c.Check("SignForRecover", N+"/SignForRecover/recovery-id-mismatch", v == wv, func() string {
			return fmt.Sprintf("%s v=%d want %d (X=%s)", desc(), v, wv, g.C.String(X))
		})
		// the caller passes the digest to RecoverFrom
		var rk signature.PublicKey
		if c.Guard(N+"/RecoverFrom/panic/honest", desc, func() { rk, err = e.d.RecoverFrom(append([]byte(nil), digest...), v, r, s) }) {
			return
		}
		okk := err == nil
		if okk {
			x, y := e.d.PubXY(rk)
			okk = g.C.Eq(wpt(x, y), k.Q) && rk.Equal(k.pk)
		}
		c.Check("RecoverFrom", N+"/RecoverFrom/not-the-signer-key/"+h.name, okk, func() string {
			return fmt.Sprintf("%s v=%d r=%s s=%s err=%s", desc(), v, r.Text(16), s.Text(16), errStr(err))
		})
		hs[i] = &honest{k, digest, z, v, r, s}
	})
	// arbitrary recovery inputs: every v in 0..3 on honest and random (r,s); refused exactly when SEC 1 4.1.6 has no candidate
	type ar struct {
		cls    string
		digest []byte
		v      uint
		r, s   *big.Int
	}
	var as []ar
	cnt := 0
	for _, h := range hs {
		if h == nil || cnt >= c.Pick(6, 40) {
			continue
		}
		cnt++
		for v := uint(0); v < 4; v++ {
			if v != h.v {
				as = append(as, ar{fmt.Sprintf("honest-rs/other-v=%d", v), h.digest, v, h.r, h.s})
			}
		}
		as = append(as, ar{"honest-r/random-s", h.digest, h.v, h.r, new(big.Int).Add(e.rng.BigBelow(new(big.Int).Sub(g.R, one)), one)})
	}
	for i := 0; i < c.Pick(24, 300); i++ {
		as = append(as, ar{"random-rs", e.rng.Bytes(e.nb), uint(i % 4), new(big.Int).Add(e.rng.BigBelow(new(big.Int).Sub(g.R, one)), one), new(big.Int).Add(e.rng.BigBelow(new(big.Int).Sub(g.R, one)), one)})
	}
	// x = r + n < p: the second candidate abscissa of SEC 1 4.1.6 (recovery id bit 1)
	for i := 0; i < c.Pick(3, 12); i++ {
		w, ok := e.wrapCase()
		if !ok {
			break
		}
		v := uint(2) | w.X.Y[0].Bit(0)
		desc := func() string {
			return fmt.Sprintf("digest=%s v=%d r=%s s=%s (commitment X=%s, x(X)=r+n)", hx(w.digest), v, w.r.Text(16), w.s.Text(16), g.C.String(w.X))
		}
		var rk signature.PublicKey
		var err error
		if c.Guard(N+"/RecoverFrom/panic/x=r+n", desc, func() { rk, err = e.d.RecoverFrom(append([]byte(nil), w.digest...), v, w.r, w.s) }) {
			continue
		}
		okk := err == nil
		if okk {
			x, y := e.d.PubXY(rk)
			okk = g.C.Eq(wpt(x, y), w.Q)
		}
		c.Check("RecoverFrom", N+"/RecoverFrom/mismatch/x=r+n", okk, func() string { return desc() + " err=" + errStr(err) + " want " + g.C.String(w.Q) })
		c.Class(N + "/RecoverFrom/x=r+n")
		// and with bit 1 cleared the other abscissa (x = r) is used: decided like every arbitrary input below
		as = append(as, ar{"x=r+n-case/v-bit1-cleared", w.digest, v &^ 2, w.r, w.s})
	}
	zero, nn := new(big.Int), g.R
	dg := e.rng.Bytes(e.nb)
	as = append(as, ar{"r=0", dg, 0, zero, one}, ar{"s=0", dg, 0, one, zero}, ar{"r=n", dg, 0, nn, one}, ar{"s=n", dg, 0, one, nn},
		ar{"r=-1", dg, 0, big.NewInt(-1), one}, ar{"s=-1", dg, 0, one, big.NewInt(-1)})
	par(len(as), func(i int) {
		a := as[i]
		z := e.d.HashToInt(append([]byte(nil), a.digest...)) // the library's own integer: the truncation is judged in zOf, not here
		want, why := p.Recover(z, a.v, a.r, a.s)
		desc := func() string {
			return fmt.Sprintf("class=%s digest=%s v=%d r=%s s=%s", a.cls, hx(a.digest), a.v, a.r.Text(16), a.s.Text(16))
		}
		var rk signature.PublicKey
		var err error
		if c.Guard(N+"/RecoverFrom/panic/"+a.cls, desc, func() {
			rk, err = e.d.RecoverFrom(append([]byte(nil), a.digest...), a.v, new(big.Int).Set(a.r), new(big.Int).Set(a.s))
		}) {
			return
		}
		c.Class(fmt.Sprintf("%s/RecoverFrom/%s/%s", N, a.cls, map[bool]string{true: "candidate", false: why}[why == ""]))
		if why != "" {
			c.Check("RecoverFrom", N+"/RecoverFrom/no-error-without-candidate/"+why, err != nil, func() string {
				x, y := e.d.PubXY(rk)
				verdict := "n/a"
				if a.r.Sign() > 0 && a.s.Sign() > 0 && a.r.Cmp(g.R) < 0 && a.s.Cmp(g.R) < 0 && !(x.Sign() == 0 && y.Sign() == 0) {
					d2, _ := p.VerifyZ(wpt(x, y), a.r, a.s, z)
					verdict = d2.Reason
				}
				return fmt.Sprintf("%s: SEC 1 4.1.6 has no candidate point (%s) but RecoverFrom returned no error and the key (%s,%s); verification equation for (r,s) under that key: %s", desc(), why, x.Text(16), y.Text(16), verdict)
			})
			return
		}
		if want.Inf { // Q = O is not a key; either answer is tolerated
			return
		}
		okk := err == nil
		if okk {
			x, y := e.d.PubXY(rk)
			okk = g.C.Eq(wpt(x, y), want)
		}
		c.Check("RecoverFrom", N+"/RecoverFrom/mismatch/"+a.cls, okk, func() string { return desc() + " err=" + errStr(err) + " want " + g.C.String(want) })
	})
}
