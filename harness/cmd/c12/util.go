package main

import (
	"crypto/sha256"
	"crypto/sha512"
	"fmt"
	"hash"
	"math/big"
	"runtime"
	"sync"

	"verif/harness/gen"
)

var (
	one = big.NewInt(1)
	two = big.NewInt(2)
)

// ---- bounded parallelism: leaf work only (callers never hold a token while waiting) ----
var sem = make(chan struct{}, runtime.GOMAXPROCS(0))

func par(n int, f func(i int)) {
	var wg sync.WaitGroup
	for i := 0; i < n; i++ {
		wg.Add(1)
		go func(i int) {
			defer wg.Done()
			sem <- struct{}{}
			defer func() { <-sem }()
			f(i)
		}(i)
	}
	wg.Wait()
}

// ---- hashes ----
type hcfg struct {
	name  string
	mk    func() hash.Hash // nil: no hash object is passed (ECDSA: message is the digest; EdDSA: must be refused)
	block int              // > 0: messages are sequences of canonical big-endian field elements of this size (MiMC)
	mod   *big.Int
}

func (h hcfg) new() hash.Hash {
	if h.mk == nil {
		return nil
	}
	return h.mk()
}

// dirty returns a hash object that already absorbed unrelated data (Sign/Verify must Reset it).
func (h hcfg) dirty() hash.Hash {
	x := h.new()
	if x == nil {
		return nil
	}
	if h.block > 0 {
		x.Write(make([]byte, h.block))
	} else {
		x.Write([]byte("left over from a previous use"))
	}
	return x
}

var (
	hSha256 = hcfg{name: "sha256", mk: sha256.New}
	hSha512 = hcfg{name: "sha512", mk: sha512.New}
	hNil    = hcfg{name: "nil"}
)

func hMimc(mk func() hash.Hash, block int, mod *big.Int) hcfg {
	return hcfg{name: "mimc", mk: mk, block: block, mod: mod}
}

type msgCase struct {
	cls string
	m   []byte
}

// messages: byte-oriented hashes get {empty, 1 byte, below / at / above the 55-56-64 byte padding boundaries of a
// 64-byte-block hash, multi-block, 1000 bytes}; MiMC gets {empty, short (left padded by the hash), 1, 2, 3, 9 elements}.
func messages(h hcfg, rng *gen.Rng, thorough bool) []msgCase {
	var out []msgCase
	if h.block > 0 {
		ks := []int{1, 2, 3, 9}
		if thorough {
			ks = append(ks, 4, 5, 17, 64)
		}
		out = append(out, msgCase{"empty", []byte{}})
		out = append(out, msgCase{"short-5B", append([]byte{1}, rng.Bytes(4)...)})
		for _, k := range ks {
			var m []byte
			for i := 0; i < k; i++ {
				v := rng.BigBelow(h.mod)
				if i == 0 && k == 2 {
					v = new(big.Int).Sub(h.mod, one) // largest canonical element
				}
				m = append(m, v.FillBytes(make([]byte, h.block))...)
			}
			out = append(out, msgCase{fmt.Sprintf("%d-elements", k), m})
		}
		return out
	}
	lens := []int{0, 1, 31, 32, 33, 55, 56, 63, 64, 65, 119, 128, 200, 1000}
	if thorough {
		lens = append(lens, 2, 47, 48, 49, 111, 112, 127, 129, 255, 256, 4096, 70000)
	}
	for _, n := range lens {
		cls := fmt.Sprintf("%dB", n)
		out = append(out, msgCase{cls, rng.Bytes(n)})
	}
	return out
}

func flipBit(b []byte, i int) []byte {
	c := append([]byte(nil), b...)
	c[i/8] ^= 1 << uint(7-i%8)
	return c
}

// positions returns all bit positions when total <= max or all is set, else max seeded distinct positions
// (always including the first and last bit).
func positions(rng *gen.Rng, total, max int, all bool) []int {
	if total <= 0 {
		return nil
	}
	if all || total <= max {
		p := make([]int, total)
		for i := range p {
			p[i] = i
		}
		return p
	}
	perm := rng.Perm(total)
	seen := map[int]bool{0: true, total - 1: true}
	out := []int{0, total - 1}
	for _, x := range perm {
		if len(out) >= max {
			break
		}
		if !seen[x] {
			seen[x] = true
			out = append(out, x)
		}
	}
	return out
}

// seedReader is a deterministic io.Reader that records what it handed out.
type seedReader struct {
	rng *gen.Rng
	got []byte
}

func (s *seedReader) Read(p []byte) (int, error) {
	b := s.rng.Bytes(len(p))
	copy(p, b)
	s.got = append(s.got, b...)
	return len(p), nil
}

func hx(b []byte) string {
	if len(b) > 160 {
		return fmt.Sprintf("%x…(%d bytes)", b[:160], len(b))
	}
	return fmt.Sprintf("%x", b)
}

func errStr(err error) string {
	if err == nil {
		return "nil"
	}
	return err.Error()
}
