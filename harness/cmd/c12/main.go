// C12: EdDSA (8 packages) and ECDSA (10 packages): honest signatures verify and match the documented procedure,
// Verify decides exactly the textbook equation on arbitrary candidates (independent oracle over math/big),
// recovery returns the signer key, keys and signatures round-trip through their encodings.
package main

import (
	"runtime/debug"
	"sync"
	"time"

	"verif/harness/adapt/sigs"
	"verif/harness/mon"
)

func main() {
	c := mon.Init("C12")
	var wg sync.WaitGroup
	run := func(name string, f func()) {
		if !mon.Selected(name) {
			return
		}
		wg.Add(1)
		go func() {
			defer wg.Done()
			defer func() {
				if r := recover(); r != nil {
					c.Fail(name+"/harness/panic", "panic outside a guarded call: %v\n%s", r, debug.Stack())
				}
			}()
			t0 := time.Now()
			f()
			c.Extra(name+".wall_s", int(time.Since(t0).Seconds()))
		}()
	}
	for _, d := range sigs.AllECDSA {
		d := d
		run(d.Name, func() { runECDSA(c, d.New()) })
	}
	for _, d := range sigs.AllEdDSA {
		d := d
		run(d.Name, func() { runEdDSA(c, d.New()) })
	}
	wg.Wait()
	c.Extra("instances", map[string]int{"ecdsa": len(sigs.AllECDSA), "eddsa": len(sigs.AllEdDSA)})
	c.Finish()
}
