// Package mon is the shared runtime monitor: case accounting, violation
// recording with known-finding matching, panic capture, evidence output.
package mon

import (
	"bufio"
	"encoding/json"
	"flag"
	"fmt"
	"os"
	"runtime/debug"
	"sort"
	"strconv"
	"strings"
	"sync"
	"sync/atomic"
	"time"
)

// Violation is one refuted case.
type Violation struct {
	Key    string `json:"key"`    // instance/op/class : identifies call site and input class
	Detail string `json:"detail"` // inputs, observed, expected
	Known  bool   `json:"known"`
}

type knownEntry struct {
	key  string
	text string
}

// Ctx accumulates what one run observed.
type Ctx struct {
	Prop  string
	Tier  string
	Seed  int64
	Stage string
	Out   string // partial evidence path
	start time.Time

	mu         sync.Mutex
	evals      atomic.Int64
	classes    map[string]int64 // distinct non-trivial class -> count
	perOp      map[string]int64
	samples    []any
	viol       []Violation
	violKeys   map[string]int
	known      []knownEntry
	knownHit   map[string]string
	extra      map[string]any
	notes      []string
	incon      []string
	current    atomic.Value // string: the case in flight (for crash reports)
	maxSamples int
	Replay     string
}

var (
	flagOut    = flag.String("out", "", "partial evidence output path")
	flagStage  = flag.String("stage", "main", "stage name")
	flagReplay = flag.String("replay", "", "replay file (restricts the run to the recorded key)")
	flagKnown  = flag.String("known", "/verif/KNOWN_FINDINGS.txt", "known findings file")
)

// Init parses flags/env and returns the context.
func Init(prop string) *Ctx {
	if !flag.Parsed() {
		flag.Parse()
	}
	c := &Ctx{Prop: prop, Tier: os.Getenv("VERIF_TIER"), Stage: *flagStage, Out: *flagOut, start: time.Now(),
		classes: map[string]int64{}, perOp: map[string]int64{}, violKeys: map[string]int{}, knownHit: map[string]string{},
		extra: map[string]any{}, maxSamples: 12, Replay: *flagReplay}
	if c.Tier == "" {
		c.Tier = "quick"
	}
	c.Seed = 1
	if s := os.Getenv("VERIF_SEED"); s != "" {
		if v, err := strconv.ParseInt(s, 10, 64); err == nil {
			c.Seed = v
		}
	}
	c.loadKnown(*flagKnown)
	debug.SetPanicOnFault(true)
	c.current.Store("")
	return c
}

func (c *Ctx) Thorough() bool { return c.Tier == "thorough" }

// Pick returns q in quick tier and t in thorough tier.
func (c *Ctx) Pick(q, t int) int {
	if c.Thorough() {
		return t
	}
	return q
}

func (c *Ctx) loadKnown(path string) {
	f, err := os.Open(path)
	if err != nil {
		return
	}
	defer f.Close()
	sc := bufio.NewScanner(f)
	for sc.Scan() {
		l := strings.TrimSpace(sc.Text())
		if !strings.HasPrefix(l, "known:") {
			continue
		}
		fs := strings.Fields(l)
		var prop, key string
		rest := []string{}
		for _, f := range fs[1:] {
			switch {
			case strings.HasPrefix(f, "property=") && prop == "":
				prop = f[len("property="):]
			case strings.HasPrefix(f, "key=") && key == "":
				key = f[len("key="):]
			default:
				rest = append(rest, f)
			}
		}
		if prop == c.Prop && key != "" {
			c.known = append(c.known, knownEntry{key, strings.Join(rest, " ")})
		}
	}
}

func (c *Ctx) matchKnown(key string) (string, bool) {
	for _, k := range c.known {
		if k.key == key || Glob(k.key, key) {
			return k.key + " " + k.text, true
		}
	}
	return "", false
}

// Current sets the in-flight case description (cheap; used in crash reports).
func (c *Ctx) Current(s string) { c.current.Store(s) }

// Eval counts n oracle-decided evaluations for op.
func (c *Ctx) Eval(op string, n int) {
	c.evals.Add(int64(n))
	c.mu.Lock()
	c.perOp[op] += int64(n)
	c.mu.Unlock()
}

// Class records a distinct non-trivial case class.
func (c *Ctx) Class(cl string) {
	c.mu.Lock()
	c.classes[cl]++
	c.mu.Unlock()
}

// Sample stores an example case (bounded).
func (c *Ctx) Sample(s any) {
	c.mu.Lock()
	if len(c.samples) < c.maxSamples {
		c.samples = append(c.samples, s)
	}
	c.mu.Unlock()
}

// SampleN allows more samples under a label: keeps at most one per label.
func (c *Ctx) SampleOnce(label string, s any) {
	c.mu.Lock()
	k := "sample:" + label
	if _, ok := c.extra[k]; !ok && len(c.samples) < 40 {
		c.extra[k] = true
		c.samples = append(c.samples, map[string]any{"label": label, "case": s})
	}
	c.mu.Unlock()
}

// Extra sets an additional evidence key.
func (c *Ctx) Extra(k string, v any) {
	c.mu.Lock()
	c.extra[k] = v
	c.mu.Unlock()
}

// AddExtra adds n to an integer evidence counter.
func (c *Ctx) AddExtra(k string, n int64) {
	c.mu.Lock()
	v, _ := c.extra[k].(int64)
	c.extra[k] = v + n
	c.mu.Unlock()
}

func (c *Ctx) Note(format string, a ...any) {
	c.mu.Lock()
	c.notes = append(c.notes, fmt.Sprintf(format, a...))
	c.mu.Unlock()
}

// Inconclusive records a reason the run cannot decide.
func (c *Ctx) Inconclusive(format string, a ...any) {
	c.mu.Lock()
	c.incon = append(c.incon, fmt.Sprintf(format, a...))
	c.mu.Unlock()
}

// Fail records a violation with the given key (instance/op/class).
func (c *Ctx) Fail(key, format string, a ...any) {
	detail := fmt.Sprintf(format, a...)
	if len(detail) > 4000 {
		detail = detail[:4000] + "…"
	}
	c.mu.Lock()
	defer c.mu.Unlock()
	c.violKeys[key]++
	if c.violKeys[key] > 3 {
		return // keep at most three witnesses per key
	}
	txt, known := c.matchKnown(key)
	if known {
		c.knownHit[key] = txt
	}
	c.viol = append(c.viol, Violation{Key: key, Detail: detail, Known: known})
	// written at once as well: a fatal error of the runtime later in the run (out of memory, checkptr, a crash
	// in a worker goroutine) must not take the violations already observed with it
	if c.Out != "" && len(c.viol) <= 200 {
		if f, err := os.OpenFile(c.Out+".viol.jsonl", os.O_APPEND|os.O_CREATE|os.O_WRONLY, 0o644); err == nil {
			b, _ := json.Marshal(Violation{Key: key, Detail: detail, Known: known})
			f.Write(append(b, '\n'))
			f.Close()
		}
	}
}

// Check is Eval + conditional Fail; detail is only built on failure.
func (c *Ctx) Check(op, key string, ok bool, detail func() string) bool {
	c.evals.Add(1)
	if !ok {
		c.Fail(key, "%s", detail())
	}
	return ok
}

// Guard runs fn and converts a panic into a violation of key (panic inside contract).
func (c *Ctx) Guard(key string, desc func() string, fn func()) (panicked bool) {
	defer func() {
		if r := recover(); r != nil {
			panicked = true
			st := string(debug.Stack())
			if len(st) > 1500 {
				st = st[:1500]
			}
			c.Fail(key, "PANIC %v on %s\n%s", r, desc(), st)
		}
	}()
	fn()
	return false
}

// Try runs fn and reports whether it panicked, without recording anything.
func Try(fn func()) (panicked bool, val any) {
	defer func() {
		if r := recover(); r != nil {
			panicked = true
			val = r
		}
	}()
	fn()
	return
}

type partial struct {
	Prop       string           `json:"property_id"`
	Stage      string           `json:"stage"`
	Tier       string           `json:"tier"`
	Seed       int64            `json:"seed"`
	Evals      int64            `json:"evaluations"`
	Classes    map[string]int64 `json:"classes"`
	PerOp      map[string]int64 `json:"per_op"`
	Samples    []any            `json:"samples"`
	Violations []Violation      `json:"violations"`
	ViolCounts map[string]int   `json:"violation_counts"`
	Extra      map[string]any   `json:"extra"`
	Notes      []string         `json:"notes"`
	Incon      []string         `json:"inconclusive"`
	WallS      float64          `json:"wall_s"`
}

// Finish writes the partial evidence and exits: 0 held, 1 violation, 2 inconclusive.
func (c *Ctx) Finish() {
	c.mu.Lock()
	p := partial{Prop: c.Prop, Stage: c.Stage, Tier: c.Tier, Seed: c.Seed, Evals: c.evals.Load(), Classes: c.classes,
		PerOp: c.perOp, Samples: c.samples, Violations: c.viol, ViolCounts: c.violKeys, Extra: c.extra, Notes: c.notes,
		Incon: c.incon, WallS: time.Since(c.start).Seconds()}
	for k := range p.Extra {
		if strings.HasPrefix(k, "sample:") {
			delete(p.Extra, k)
		}
	}
	c.mu.Unlock()
	if c.Out != "" {
		b, _ := json.MarshalIndent(p, "", " ")
		if err := os.WriteFile(c.Out, b, 0o644); err != nil {
			fmt.Println("cannot write partial evidence:", err)
			os.Exit(2)
		}
	}
	unknown := 0
	agg := map[string]int{}
	for k, txt := range c.knownHit {
		agg[txt] += c.violKeys[k]
	}
	keys := make([]string, 0, len(agg))
	for k := range agg {
		keys = append(keys, k)
	}
	sort.Strings(keys)
	for _, k := range keys {
		fmt.Printf("KNOWN-FINDING: property=%s (%d cases) key=%s\n", c.Prop, agg[k], k)
	}
	for _, v := range c.viol {
		if !v.Known {
			unknown++
			fmt.Printf("FAIL property=%s stage=%s key=%s :: %s\n", c.Prop, c.Stage, v.Key, v.Detail)
		}
	}
	fmt.Printf("STAGE %s/%s evaluations=%d classes=%d violations=%d known=%d wall=%.1fs\n", c.Prop, c.Stage, p.Evals, len(p.Classes), unknown, len(c.knownHit), p.WallS)
	if unknown > 0 {
		os.Exit(1)
	}
	if len(c.incon) > 0 {
		for _, s := range c.incon {
			fmt.Printf("INCONCLUSIVE property=%s reason=%s\n", c.Prop, s)
		}
		os.Exit(2)
	}
	os.Exit(0)
}

// Selected reports whether an instance name passes the VERIF_ONLY filter (comma-separated substrings).
func Selected(name string) bool {
	only := os.Getenv("VERIF_ONLY")
	if only == "" {
		return true
	}
	for _, p := range strings.Split(only, ",") {
		if p != "" && strings.Contains(name, p) {
			return true
		}
	}
	return false
}

// Glob matches s against pattern where '*' matches any (possibly empty) run of characters, '/' included.
func Glob(pattern, s string) bool {
	parts := strings.Split(pattern, "*")
	if len(parts) == 1 {
		return pattern == s
	}
	if !strings.HasPrefix(s, parts[0]) {
		return false
	}
	s = s[len(parts[0]):]
	for i := 1; i < len(parts)-1; i++ {
		j := strings.Index(s, parts[i])
		if j < 0 {
			return false
		}
		s = s[j+len(parts[i]):]
	}
	return strings.HasSuffix(s, parts[len(parts)-1])
}
