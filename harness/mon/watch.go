package mon

import (
	"fmt"
	"os"
	"regexp"
	"runtime"
	"sort"
	"strings"
	"time"
)

var blockedRe = regexp.MustCompile(`(?m)^goroutine \d+ \[(chan send|chan receive|select|semacquire|sync\.WaitGroup\.Wait|sync\.Mutex\.Lock)`)

// Watch runs fn; if it does not return, a no-progress detector decides: two goroutine dumps
// 3 s apart in which every library goroutine is parked at the same place => deadlock (violation);
// anything else => inconclusive. Returns false when fn did not return.
func Watch(c *Ctx, key string, desc func() string, limit time.Duration, fn func(), size ...int) bool {
	done := make(chan struct{})
	var panicked any
	go func() {
		defer func() {
			panicked = recover()
			close(done)
		}()
		fn()
	}()
	select {
	case <-done:
		if panicked != nil {
			c.Fail(key+"/panic", "PANIC %v on %s", panicked, desc())
		}
		return true
	case <-time.After(limit):
	}
	dump := func() string {
		buf := make([]byte, 1<<22)
		n := runtime.Stack(buf, true)
		var keep []string
		for _, g := range strings.Split(string(buf[:n]), "\n\n") {
			if strings.Contains(g, "gnark-crypto/ecc") || strings.Contains(g, "gnark-crypto/internal/parallel") {
				// normalise: drop goroutine ids, argument values, +0x offsets and wait durations
				var ls []string
				for _, l := range strings.Split(g, "\n") {
					l = regexp.MustCompile(`^goroutine \d+ \[([a-zA-Z .]+)[^\]]*\]:`).ReplaceAllString(l, "[$1]:")
					if !strings.HasPrefix(l, "\t") && !strings.HasPrefix(l, "[") {
						if i := strings.LastIndex(l, "("); i > 0 {
							l = l[:i]
						}
						l = regexp.MustCompile(` in goroutine \d+$`).ReplaceAllString(l, "")
					}
					l = regexp.MustCompile(` \+0x[0-9a-f]+$`).ReplaceAllString(l, "")
					ls = append(ls, l)
				}
				keep = append(keep, strings.Join(ls, "\n"))
			}
		}
		sort.Strings(keep)
		return strings.Join(keep, "\n--\n")
	}
	d1 := dump()
	time.Sleep(3 * time.Second)
	select {
	case <-done:
		c.Note("slow call (returned during the no-progress check): %s", desc())
		return true
	default:
	}
	d2 := dump()
	allBlocked := d1 != "" && !strings.Contains(d1, "[running]") && !strings.Contains(d1, "[runnable]")
	if d1 == d2 && allBlocked {
		if len(d1) > 3000 {
			d1 = d1[:3000]
		}
		c.Fail(key+"/no-termination", "%s did not return within %v; all library goroutines are parked at the same place in two dumps 3 s apart (deadlock):\n%s", desc(), limit, d1)
	} else if len(size) > 0 && size[0] <= 64 && d1 != "" && topFrames(d1) == topFrames(d2) {
		// a call on at most 64 terms (milliseconds of work) that is still executing the same library functions
		// after the limit, 10^4..10^5 times its normal duration, and again 3 s later: a loop that does not end
		if len(d1) > 3000 {
			d1 = d1[:3000]
		}
		c.Fail(key+"/no-termination", "%s (a workload of %d terms) did not return within %v and is still running in the same library functions in two dumps 3 s apart (non-terminating loop):\n%s", desc(), size[0], limit, d1)
	} else {
		c.Inconclusive("%s did not return within %v but goroutines were still making progress (blocked=%v same=%v)", desc(), limit, allBlocked, d1 == d2)
		if os.Getenv("VERIF_DEBUG") != "" {
			fmt.Println("DUMP1\n" + d1 + "\nDUMP2\n" + d2)
		}
	}
	return false
}

// topFrames reduces a normalised dump to the sorted set of innermost library functions of its goroutines.
func topFrames(d string) string {
	var tops []string
	for _, g := range strings.Split(d, "\n--\n") {
		for _, l := range strings.Split(g, "\n") {
			if strings.Contains(l, "gnark-crypto/") && !strings.HasPrefix(l, "\t") && !strings.HasPrefix(l, "[") {
				tops = append(tops, l)
				break
			}
		}
	}
	sort.Strings(tops)
	return strings.Join(tops, "|")
}
