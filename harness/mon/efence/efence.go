// Package efence places buffers flush against an inaccessible page (guard page), so that hand-written
// assembly reading or writing one byte past (or before) the buffer faults. Go's race detector, checkptr and
// ASan do not see assembly; this does. Use with debug.SetPanicOnFault(true): the fault becomes a panic.
package efence

import (
	"syscall"
	"unsafe"
)

const page = 4096

// Region is an mmap'ed area: [guard][data pages][guard].
type Region struct {
	mem  []byte
	data []byte
}

// New reserves room for n bytes (rounded up to pages) between two PROT_NONE pages.
func New(n int) (*Region, error) {
	pages := (n + page - 1) / page
	if pages == 0 {
		pages = 1
	}
	total := (pages + 2) * page
	mem, err := syscall.Mmap(-1, 0, total, syscall.PROT_READ|syscall.PROT_WRITE, syscall.MAP_ANON|syscall.MAP_PRIVATE)
	if err != nil {
		return nil, err
	}
	if err := syscall.Mprotect(mem[:page], syscall.PROT_NONE); err != nil {
		return nil, err
	}
	if err := syscall.Mprotect(mem[total-page:], syscall.PROT_NONE); err != nil {
		return nil, err
	}
	return &Region{mem: mem, data: mem[page : total-page]}, nil
}

// AtEnd returns n bytes ending exactly at the upper guard page.
func (r *Region) AtEnd(n int) []byte { return r.data[len(r.data)-n:] }

// AtStart returns n bytes starting exactly after the lower guard page.
func (r *Region) AtStart(n int) []byte { return r.data[:n:n] }

func (r *Region) Free() { _ = syscall.Munmap(r.mem) }

// Slice reinterprets fenced bytes as a slice of n elements of type E (size must match).
func Slice[E any](b []byte, n int) []E {
	if n == 0 {
		return []E{}
	}
	return unsafe.Slice((*E)(unsafe.Pointer(&b[0])), n)
}

// Poison fills the whole data area with a byte pattern (to detect reads of stale bytes / in-page overwrites).
func (r *Region) Poison(b byte) {
	for i := range r.data {
		r.data[i] = b
	}
}

// Outside reports whether any byte of the data area outside [lo,hi) differs from the poison byte.
func (r *Region) Outside(used []byte, b byte) bool {
	if len(used) == 0 {
		for _, x := range r.data {
			if x != b {
				return true
			}
		}
		return false
	}
	lo := int(uintptr(unsafe.Pointer(&used[0])) - uintptr(unsafe.Pointer(&r.data[0])))
	hi := lo + len(used)
	for i, x := range r.data {
		if (i < lo || i >= hi) && x != b {
			return true
		}
	}
	return false
}
