// Package snap computes deep content digests of arbitrary Go values (through pointers, slices, maps,
// unexported fields), used by the purity monitors: digest(arg) before a call must equal digest(arg) after.
// Fields of types from package sync / sync/atomic (locks, once flags, counters) are skipped.
package snap

import (
	"crypto/sha256"
	"encoding/binary"
	"hash"
	"reflect"
	"sort"
	"strings"
	"unsafe"
)

type walker struct {
	h    hash.Hash
	seen map[uintptr]bool
}

// Hash returns the digest of the content reachable from v.
func Hash(v any) [32]byte {
	w := &walker{h: sha256.New(), seen: map[uintptr]bool{}}
	w.walk(reflect.ValueOf(v))
	var out [32]byte
	copy(out[:], w.h.Sum(nil))
	return out
}

func (w *walker) u64(x uint64) {
	var b [8]byte
	binary.LittleEndian.PutUint64(b[:], x)
	w.h.Write(b[:])
}

func (w *walker) walk(v reflect.Value) {
	if !v.IsValid() {
		w.u64(0xdead)
		return
	}
	t := v.Type()
	if p := t.PkgPath(); p == "sync" || p == "sync/atomic" || strings.HasPrefix(p, "internal/") {
		return
	}
	switch v.Kind() {
	case reflect.Bool:
		if v.Bool() {
			w.u64(1)
		} else {
			w.u64(0)
		}
	case reflect.Int, reflect.Int8, reflect.Int16, reflect.Int32, reflect.Int64:
		w.u64(uint64(v.Int()))
	case reflect.Uint, reflect.Uint8, reflect.Uint16, reflect.Uint32, reflect.Uint64, reflect.Uintptr:
		w.u64(v.Uint())
	case reflect.Float32, reflect.Float64:
		w.u64(uint64(v.Float()))
	case reflect.Complex64, reflect.Complex128:
		w.u64(uint64(real(v.Complex())))
	case reflect.String:
		w.u64(uint64(v.Len()))
		w.h.Write([]byte(v.String()))
	case reflect.Array:
		w.bulk(v)
	case reflect.Slice:
		if v.IsNil() {
			w.u64(0x5111ce)
			return
		}
		w.u64(uint64(v.Len()))
		w.bulk(v)
	case reflect.Struct:
		for i := 0; i < v.NumField(); i++ {
			w.walk(v.Field(i))
		}
	case reflect.Pointer:
		if v.IsNil() {
			w.u64(0x911)
			return
		}
		p := v.Pointer()
		if w.seen[p] {
			w.u64(0xc1c1e)
			return
		}
		w.seen[p] = true
		w.walk(v.Elem())
	case reflect.Interface:
		if v.IsNil() {
			w.u64(0x1face)
			return
		}
		w.walk(v.Elem())
	case reflect.Map:
		if v.IsNil() {
			w.u64(0x3a9)
			return
		}
		type kv struct {
			k string
			v reflect.Value
		}
		var items []kv
		it := v.MapRange()
		for it.Next() {
			sub := &walker{h: sha256.New(), seen: map[uintptr]bool{}}
			sub.walk(it.Key())
			items = append(items, kv{string(sub.h.Sum(nil)), it.Value()})
		}
		sort.Slice(items, func(i, j int) bool { return items[i].k < items[j].k })
		for _, e := range items {
			w.h.Write([]byte(e.k))
			w.walk(e.v)
		}
	case reflect.Func, reflect.Chan, reflect.UnsafePointer:
		// not part of the observable value
	}
}

// bulk hashes arrays/slices; flat numeric element types are hashed as raw memory for speed.
func (w *walker) bulk(v reflect.Value) {
	n := v.Len()
	if n == 0 {
		return
	}
	et := v.Type().Elem()
	if flat(et) && v.Index(0).CanAddr() {
		sz := int(et.Size()) * n
		b := unsafe.Slice((*byte)(unsafe.Pointer(v.Index(0).UnsafeAddr())), sz)
		w.h.Write(b)
		return
	}
	for i := 0; i < n; i++ {
		w.walk(v.Index(i))
	}
}

func flat(t reflect.Type) bool {
	switch t.Kind() {
	case reflect.Bool, reflect.Int, reflect.Int8, reflect.Int16, reflect.Int32, reflect.Int64,
		reflect.Uint, reflect.Uint8, reflect.Uint16, reflect.Uint32, reflect.Uint64:
		return true
	case reflect.Array:
		return flat(t.Elem())
	case reflect.Struct:
		if p := t.PkgPath(); p == "sync" || p == "sync/atomic" {
			return false
		}
		for i := 0; i < t.NumField(); i++ {
			if !flat(t.Field(i).Type) {
				return false
			}
		}
		return true
	}
	return false
}
