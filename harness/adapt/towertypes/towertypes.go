// Package towertypes lists, per extension tower of the library, the exported types (as pointers to zero
// values) and package-level functions; cmd/c06 drives them by reflection.
package towertypes

import "math/big"

type Tower struct {
	Name  string
	Kind  string // "pairing" | "small"
	P, R  *big.Int
	Types []any          // pointers to zero values of each exported tower type
	Funcs map[string]any // package-level functions by name
	GT    any            // pointer to a zero GT (pairing towers)
}
