// Package permlook exposes the 7 ecc/<curve>/fr/permutation and ecc/<curve>/fr/plookup packages, together
// with the KZG and G1 operations a forger needs, behind one neutral operation table: scalars are *big.Int
// in [0, r); G1 points are opaque values (the library's own G1Affine boxed in an `any`); keys are opaque
// (kzg.ProvingKey / kzg.VerifyingKey values); proofs are pointers to the library's own proof structs, whose
// unexported fields are reached by the caller through reflection (FrType / G1Type identify the leaves).
//
// The adapter only converts representations and forwards calls.
package permlook

import (
	"math/big"
	"reflect"
)

// Inst is one curve.
type Inst struct {
	Name             string // curve directory name, e.g. "bls12-377"
	PermPkg, LookPkg string // "ecc/<curve>/fr/permutation", "ecc/<curve>/fr/plookup"
	R                *big.Int
	FrType, G1Type   reflect.Type
	Errs             map[string]error // sentinel errors, "permutation.ErrX" / "plookup.ErrX"

	// leaves of proof structs: p is *fr.Element / *G1Affine
	FrGet func(p any) *big.Int
	FrSet func(p any, v *big.Int)
	G1Get func(p any) any
	G1Set func(p any, v any)

	// G1 (values are the library's G1Affine)
	G1Gen, G1Inf func() any
	G1Add        func(a, b any) any
	G1Neg        func(a any) any
	G1Mul        func(a any, k *big.Int) any
	G1Eq         func(a, b any) bool
	G1IsInf      func(a any) bool
	G1Raw        func(a any) []byte // RawBytes (what permutation / plookup bind in their transcripts)
	G1Marshal    func(a any) []byte
	FrMarshal    func(v *big.Int) []byte

	// KZG (hash of the batch functions: sha256, as in permutation / plookup)
	NewSRS      func(size uint64, alpha *big.Int) (pk, vk any, err error)
	Commit      func(poly []*big.Int, pk any) (any, error)
	Open        func(poly []*big.Int, z *big.Int, pk any) (h any, v *big.Int, err error)
	BatchOpen   func(polys [][]*big.Int, digests []any, z *big.Int, pk any) (h any, vs []*big.Int, err error)
	KzgVerify   func(c any, h any, v, z *big.Int, vk any) error
	BatchVerify func(digests []any, h any, vs []*big.Int, z *big.Int, vk any) error

	// the schemes; proofs are *permutation.Proof, *plookup.ProofLookupVector, *plookup.ProofLookupTables
	NewProof   func(kind string) any // "perm", "vec", "tab": pointer to a zero proof
	PermProve  func(pk any, t1, t2 []*big.Int) (any, error)
	PermVerify func(vk any, proof any) error
	VecProve   func(pk any, f, t []*big.Int) (any, error)
	VecVerify  func(vk any, proof any) error
	TabProve   func(pk any, f, t [][]*big.Int) (any, error)
	TabVerify  func(vk any, proof any) error
}
