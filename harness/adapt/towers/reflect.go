package towers

import (
	"math/big"
	"reflect"

	"verif/harness/oracle/ofield"
)

type bigIntGetter interface{ BigInt(*big.Int) *big.Int }

// Flatten converts a pointer to a (nested) tower element struct into its flattened oracle coefficients,
// walking struct fields in declaration order down to the prime-field leaves.
func Flatten(ptr any) ofield.El {
	var out ofield.El
	flat(reflect.ValueOf(ptr).Elem(), &out)
	return out
}

func flat(v reflect.Value, out *ofield.El) {
	if v.CanAddr() {
		if g, ok := v.Addr().Interface().(bigIntGetter); ok && v.Kind() == reflect.Array {
			*out = append(*out, g.BigInt(new(big.Int)))
			return
		}
	}
	switch v.Kind() {
	case reflect.Struct:
		for i := 0; i < v.NumField(); i++ {
			flat(v.Field(i), out)
		}
	default:
		panic("towers.Flatten: unsupported kind " + v.Kind().String())
	}
}

// Unflatten writes oracle coefficients into a pointer to a tower element struct.
func Unflatten(ptr any, e ofield.El) {
	rest := unflat(reflect.ValueOf(ptr).Elem(), e)
	if len(rest) != 0 {
		panic("towers.Unflatten: too many coefficients")
	}
}

func unflat(v reflect.Value, e ofield.El) ofield.El {
	if v.Kind() == reflect.Array {
		m := v.Addr().MethodByName("SetBigInt")
		if !m.IsValid() {
			panic("towers.Unflatten: leaf without SetBigInt")
		}
		m.Call([]reflect.Value{reflect.ValueOf(e[0])})
		return e[1:]
	}
	for i := 0; i < v.NumField(); i++ {
		e = unflat(v.Field(i), e)
	}
	return e
}
