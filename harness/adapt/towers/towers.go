// Package towers builds the oracle towers of each pairing curve from the documented
// irreducible polynomials (package doc comments of ecc/<curve>).
package towers

import (
	"math/big"

	"verif/harness/oracle/ofield"
)

// Tower holds the oracle fields of one curve.
type Tower struct {
	Fp   *ofield.Fld
	Fp2  *ofield.Fld // quadratic (nil for bw6)
	Fp3  *ofield.Fld // bw6 only
	Fp4  *ofield.Fld // bls24 only
	Fp6  *ofield.Fld
	Fp12 *ofield.Fld
	Fp24 *ofield.Fld
	GT   *ofield.Fld // the full embedding-degree field
	G2F  *ofield.Fld // field of definition of the twist
}

func el(f *ofield.Fld, vs ...int64) ofield.El {
	b := make([]*big.Int, len(vs))
	for i := range vs {
		b[i] = big.NewInt(vs[i])
	}
	return f.FromInts(b...)
}

// For returns the tower of a curve directory name (p is the base-field modulus read from the library).
func For(curve string, p *big.Int) *Tower {
	t := &Tower{Fp: ofield.Prime(p)}
	fp := t.Fp
	switch curve {
	case "bn254": // u^2=-1, v^3=9+u, w^2=v
		t.Fp2 = fp.Ext(2, el(fp, -1))
		t.Fp6 = t.Fp2.Ext(3, el(t.Fp2, 9, 1))
		t.Fp12 = t.Fp6.Ext(2, el(t.Fp6, 0, 0, 1, 0, 0, 0))
		t.GT, t.G2F = t.Fp12, t.Fp2
	case "bls12-377": // u^2=-5, v^3=u, w^2=v
		t.Fp2 = fp.Ext(2, el(fp, -5))
		t.Fp6 = t.Fp2.Ext(3, el(t.Fp2, 0, 1))
		t.Fp12 = t.Fp6.Ext(2, el(t.Fp6, 0, 0, 1, 0, 0, 0))
		t.GT, t.G2F = t.Fp12, t.Fp2
	case "bls12-381": // u^2=-1, v^3=1+u, w^2=v
		t.Fp2 = fp.Ext(2, el(fp, -1))
		t.Fp6 = t.Fp2.Ext(3, el(t.Fp2, 1, 1))
		t.Fp12 = t.Fp6.Ext(2, el(t.Fp6, 0, 0, 1, 0, 0, 0))
		t.GT, t.G2F = t.Fp12, t.Fp2
	case "bls24-315": // u^2=13, v^2=u, w^3=v, i^2=w
		t.Fp2 = fp.Ext(2, el(fp, 13))
		t.Fp4 = t.Fp2.Ext(2, el(t.Fp2, 0, 1))
		t.Fp12 = t.Fp4.Ext(3, el(t.Fp4, 0, 0, 1, 0))
		t.Fp24 = t.Fp12.Ext(2, el(t.Fp12, 0, 0, 0, 0, 1, 0, 0, 0, 0, 0, 0, 0))
		t.GT, t.G2F = t.Fp24, t.Fp4
	case "bls24-317": // u^2=-1, v^2=u+1, w^3=v, i^2=w
		t.Fp2 = fp.Ext(2, el(fp, -1))
		t.Fp4 = t.Fp2.Ext(2, el(t.Fp2, 1, 1))
		t.Fp12 = t.Fp4.Ext(3, el(t.Fp4, 0, 0, 1, 0))
		t.Fp24 = t.Fp12.Ext(2, el(t.Fp12, 0, 0, 0, 0, 1, 0, 0, 0, 0, 0, 0, 0))
		t.GT, t.G2F = t.Fp24, t.Fp4
	case "bw6-633": // u^3=2, v^2=u
		t.Fp3 = fp.Ext(3, el(fp, 2))
		t.Fp6 = t.Fp3.Ext(2, el(t.Fp3, 0, 1, 0))
		t.GT, t.G2F = t.Fp6, fp
	case "bw6-761": // u^3=-4, v^2=u
		t.Fp3 = fp.Ext(3, el(fp, -4))
		t.Fp6 = t.Fp3.Ext(2, el(t.Fp3, 0, 1, 0))
		t.GT, t.G2F = t.Fp6, fp
	default:
		t.G2F = fp
	}
	return t
}
