// Package te exposes the 8 twisted-Edwards packages as operation tables over oracle coordinates.
package te

import (
	"fmt"
	"math/big"

	"verif/harness/oracle/ofield"
	"verif/harness/oracle/oted"
)

// Rep: "aff" [X,Y]; "proj" [X,Y,Z]; "ext" [X,Y,Z,T] (T=XY/Z); "ext1" = ext with Z=1; "bool".
type Rep struct {
	Sys  string
	C    []ofield.El
	B    bool
	Note string // Sys "note": a contract violation observed by the adapter
}

func repBool(b bool) Rep { return Rep{Sys: "bool", B: b} }

type Op struct {
	Name     string
	Sem      string
	In       []string
	Out      string
	NScalars int
	F        func(in []Rep, sc []*big.Int) Rep
}

type Curve struct {
	Name               string
	Q, Order, Cofactor *big.Int
	A, D               *big.Int
	Base               Rep
	Ops                []Op
	Lib                func(r Rep) any
	FromLib            func(p any) Rep
	F                  *ofield.Fld
	C                  *oted.Curve
	B                  oted.Pt
	Complete           bool
	GetterPrivate      func() error // see the generated adapters
}

// PresetConsts are curve constants handed to a constructor instead of being read from the library.
type PresetConsts struct{ Order, Cofactor, A, D, BaseX, BaseY *big.Int }

// Preset, when it has an entry for a package path, makes the constructor of that adapter skip GetEdwardsCurve.
var Preset = map[string]PresetConsts{}

// Bind builds the oracle curve and validates the library constants.
func (g *Curve) Bind() error {
	g.F = ofield.Prime(g.Q)
	g.C = &oted.Curve{F: g.F, A: g.F.FromInt(g.A), D: g.F.FromInt(g.D)}
	g.B = oted.Pt{X: g.Base.C[0], Y: g.Base.C[1]}
	if !g.C.IsOnCurve(g.B) {
		return fmt.Errorf("%s: base point not on curve", g.Name)
	}
	if !g.Order.ProbablyPrime(20) {
		return fmt.Errorf("%s: order not prime", g.Name)
	}
	// the unified law is complete only for a square, d non-square; otherwise the oracle reports
	// exceptional additions (ok=false) and callers skip those cases.
	g.Complete = g.F.Legendre(g.C.A) == 1 && g.F.Legendre(g.C.D) == -1
	if r := g.C.Mul(g.B, g.Order); !g.C.Eq(r, g.C.Zero()) {
		return fmt.Errorf("%s: [order]Base != O", g.Name)
	}
	return nil
}

func (g *Curve) Pt(r Rep) (oted.Pt, bool) {
	f := g.F
	switch r.Sys {
	case "aff":
		return oted.Pt{X: r.C[0], Y: r.C[1]}, true
	case "proj", "ext", "ext1":
		if f.IsZero(r.C[2]) {
			return oted.Pt{}, false
		}
		zi := f.Inv(r.C[2])
		return oted.Pt{X: f.Mul(r.C[0], zi), Y: f.Mul(r.C[1], zi)}, true
	}
	panic("te: bad system")
}

// ExtConsistent reports whether an extended representative satisfies T*Z = X*Y.
func (g *Curve) ExtConsistent(r Rep) bool {
	f := g.F
	return f.Eq(f.Mul(r.C[3], r.C[2]), f.Mul(r.C[0], r.C[1]))
}

func (g *Curve) Rep(p oted.Pt, sys string, z ofield.El) Rep {
	f := g.F
	switch sys {
	case "aff":
		return Rep{Sys: "aff", C: []ofield.El{f.Copy(p.X), f.Copy(p.Y)}}
	case "proj":
		return Rep{Sys: "proj", C: []ofield.El{f.Mul(p.X, z), f.Mul(p.Y, z), f.Copy(z)}}
	case "ext":
		return Rep{Sys: "ext", C: []ofield.El{f.Mul(p.X, z), f.Mul(p.Y, z), f.Copy(z), f.Mul(f.Mul(p.X, p.Y), z)}}
	case "ext1":
		return Rep{Sys: "ext", C: []ofield.El{f.Copy(p.X), f.Copy(p.Y), f.One(), f.Mul(p.X, p.Y)}}
	}
	panic("te: bad system")
}

func (g *Curve) Str(r Rep) string {
	if r.Sys == "bool" {
		return fmt.Sprint(r.B)
	}
	s := r.Sys + "("
	for i, c := range r.C {
		if i > 0 {
			s += ", "
		}
		s += g.F.String(c)
	}
	return s + ")"
}
