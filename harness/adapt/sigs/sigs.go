// Package sigs exposes the 10 ECDSA and 8 EdDSA packages of the library behind two untyped
// descriptors (closures over the package-specific key / signature types). Curve constants and the
// oracle curves come from adapt/groups and adapt/te.
package sigs

import (
	"hash"
	"io"
	"math/big"

	"github.com/consensys/gnark-crypto/signature"

	"verif/harness/adapt/groups"
	"verif/harness/adapt/te"
)

// ECDSA describes one ecc/<curve>/ecdsa package.
type ECDSA struct {
	Name, Curve              string
	Group                    func() *groups.Group // G1 of the curve
	FrBytes, FrBits, FpBytes int
	HasRecover               bool
	MiMC                     func() hash.Hash                          // nil: the curve has no fr/mimc
	GenerateKey              func(io.Reader) (signature.Signer, error) // package GenerateKey
	Registry                 func(io.Reader) (signature.Signer, error) // signature/ecdsa.New with the curve id (nil: not registered)
	NewPriv                  func() signature.Signer
	NewPub                   func() signature.PublicKey
	PubXY                    func(signature.PublicKey) (x, y *big.Int)  // coordinates of the field A
	MakePub                  func(x, y *big.Int) signature.PublicKey    // sets the field A without any validation
	PrivPub                  func(signature.Signer) signature.PublicKey // copy of the exported field PublicKey
	HashToInt                func([]byte) *big.Int
	SigSetBytes              func(buf []byte) (n int, r, s []byte, err error)
	SigBytes                 func(r, s []byte) []byte
	SignForRecover           func(sk signature.Signer, msg []byte, h hash.Hash) (uint, *big.Int, *big.Int, error)
	RecoverFrom              func(msg []byte, v uint, r, s *big.Int) (signature.PublicKey, error)
}

// EdDSA describes one eddsa package.
type EdDSA struct {
	Name        string
	Declared    func() *te.Curve // curve the package is named after
	Effective   func() *te.Curve // curve of the PointAffine type the package is compiled against
	FrBytes     int
	MiMC        func() hash.Hash
	GenerateKey func(io.Reader) (signature.Signer, error)
	Registry    func(io.Reader) (signature.Signer, error)
	NewPriv     func() signature.Signer
	NewPub      func() signature.PublicKey
	PubXY       func(signature.PublicKey) (x, y *big.Int)
	MakePub     func(x, y *big.Int) signature.PublicKey
	PrivPub     func(signature.Signer) signature.PublicKey
	SigSetBytes func(buf []byte) (n int, rx, ry *big.Int, s []byte, err error)
	SigBytes    func(rx, ry *big.Int, s []byte) []byte
}
