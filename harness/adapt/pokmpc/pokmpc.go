// Package pokmpc exposes, for each of the 7 pairing curves, the Pedersen proof-of-knowledge package
// (ecc/<curve>/fr/pedersen), the setup-ceremony tools (ecc/<curve>/mpcsetup) and the KZG ceremony object
// (ecc/<curve>/kzg.MpcSetup) behind one neutral table.
//
// Group elements are opaque handles: *curve.G1Affine / *curve.G2Affine (the same dynamic types as
// adapt/groups' Lib/FromLib, so coordinates and the oracle curve are reached through that package); every call
// copies the pointee, a handle is never written. Scalars are *big.Int in [0, r). Keys, proofs and ceremony
// states are pointers to the library's own structs; their unexported fields are reached by the monitor through
// reflection, not here. The adapter converts representations only: no group or pairing arithmetic is done on
// behalf of the monitor except the explicitly named Mul1/Mul2/Fold1 (library scalar multiplication / fold,
// used by the forger and the input builder, cross-checked against the affine oracle in the check).
package pokmpc

import "math/big"

// Repr is one "representation" argument of the mpcsetup package: Kind selects the dynamic type the library
// switches on: g1p (*G1Affine), g1v (G1Affine), g2p, g2v, g1s ([]G1Affine), g2s ([]G2Affine).
type Repr struct {
	Kind string
	Pts  []any
}

// Inst is one curve.
type Inst struct {
	Name       string
	R          *big.Int
	FrBytes    int
	Gen1, Gen2 any
	Inf1, Inf2 func() any
	Mul1, Mul2 func(p any, k *big.Int) any // library ScalarMultiplication (subgroup points only)
	Eq1, Eq2   func(a, b any) bool
	Fold1      func(pts []any, coeff *big.Int) (any, error) // G1Affine.Fold, NbTasks 1

	// Pedersen: pk handles are *pedersen.ProvingKey, vk handles *pedersen.VerifyingKey
	PedSetup       func(bases [][]any, g2gen any) (pks []any, vk any, err error) // g2gen nil: sampled by the library
	PedNewPK       func(basis, basisSigma []any) any
	PedNewVK       func(g, gSigmaNeg any) any
	PedPK          func(pk any) (basis, basisSigma []any)
	PedVK          func(vk any) (g, gSigmaNeg any)
	PedCommit      func(pk any, vals []*big.Int) (any, error)
	PedProve       func(pk any, vals []*big.Int) (any, error)
	PedBatchProve  func(pks []any, vals [][]*big.Int, coeff *big.Int) (any, error)
	PedVerify      func(vk, commitment, pok any) error
	PedBatchVerify func(vks, commitments, poks []any, coeff *big.Int) error

	// mpcsetup: proof handles are *mpcsetup.UpdateProof
	NewProof     func() any
	UpdateValues func(x *big.Int, challenge []byte, dst byte, reps []Repr) (proof any, updated []Repr, used *big.Int) // x nil: library samples
	ProofVerify  func(proof any, challenge []byte, dst byte, prev, next []Repr) error
	// PokBase is the documented challenge point of the proof of knowledge, "R in G2 as Hash(g^s, challenge, dst)":
	// HashToG2(commitment.Marshal() || challenge, {dst}) through the exported hash-to-curve function.
	PokBase       func(commitment any, challenge []byte, dst byte) (any, error)
	ProofWrite    func(proof any) ([]byte, error)
	ProofRead     func(data []byte) (any, error)
	SameRatioMany func(slices []Repr) error

	// kzg ceremony: handles are *kzg.MpcSetup
	KzgInit       func(n int) any
	KzgContribute func(s any)
	KzgVerify     func(prev, next any) error
	KzgWrite      func(s any) ([]byte, error)
	KzgRead       func(data []byte) (any, error)
}
