package fields

import (
	"fmt"
	"math/big"

	"verif/harness/gen"
)

var one = big.NewInt(1)

// Vals is a list of operand values with class labels.
type Vals struct {
	V   []*big.Int // integer values in [0,q)
	Cls []string   // class label of each
}

// Lattice returns the boundary operand list of a field (values, not representations)
// plus values whose Montgomery representation hits limb patterns.
func Lattice[E any, P Ptr[E]](f *Field[E, P], rng *gen.Rng, nRandom int, big_ bool) Vals {
	q := f.Modulus
	var out Vals
	seen := map[string]bool{}
	add := func(v *big.Int, cls string) {
		v = new(big.Int).Mod(v, q)
		k := v.String()
		if seen[k] {
			return
		}
		seen[k] = true
		out.V = append(out.V, v)
		out.Cls = append(out.Cls, cls)
	}
	sub := func(a, b *big.Int) *big.Int { return new(big.Int).Sub(a, b) }
	for i := int64(0); i <= 3; i++ {
		add(big.NewInt(i), "small")
		add(sub(q, big.NewInt(i+1)), "q-small")
	}
	h := new(big.Int).Rsh(q, 1)
	add(h, "(q-1)/2")
	add(new(big.Int).Add(h, one), "(q+1)/2")
	add(sub(h, one), "(q-3)/2")
	r := f.R()
	add(r, "R")
	add(new(big.Int).Mul(r, r), "R^2")
	add(new(big.Int).Neg(r), "-R")
	rinv := new(big.Int).ModInverse(r, q)
	add(rinv, "R^-1")
	w := f.LimbBits
	for k := w / 2; k < f.Bits+1; k += w / 2 {
		if !big_ && k%w != 0 {
			continue
		}
		p := new(big.Int).Lsh(one, uint(k))
		add(p, "2^k")
		add(sub(p, one), "2^k-1")
		add(new(big.Int).Add(p, one), "2^k+1")
		add(new(big.Int).Neg(p), "-2^k")
	}
	// Montgomery-limb patterns: raw representation with limbs from a pattern set; value = raw*R^-1
	mask := new(big.Int).Sub(new(big.Int).Lsh(one, uint(w)), one)
	qlimb := func(i int) *big.Int { return new(big.Int).And(new(big.Int).Rsh(q, uint(i*w)), mask) }
	pats := func(i int) []*big.Int {
		ql := qlimb(i)
		return []*big.Int{big.NewInt(0), big.NewInt(1), new(big.Int).Set(mask), ql, new(big.Int).Add(ql, one), sub(ql, one), new(big.Int).Lsh(one, uint(w-1))}
	}
	addRaw := func(raw *big.Int, cls string) {
		if raw.Sign() < 0 || raw.Cmp(q) >= 0 {
			return
		}
		add(new(big.Int).Mul(raw, rinv), cls)
	}
	np := 7
	// uniform patterns (all limbs same pattern index) and single-limb deviations
	for pi := 0; pi < np; pi++ {
		raw := new(big.Int)
		for i := 0; i < f.Limbs; i++ {
			raw.Or(raw, new(big.Int).Lsh(new(big.Int).And(pats(i)[pi], mask), uint(i*w)))
		}
		addRaw(raw, fmt.Sprintf("mont-limbs-uniform-%d", pi))
		for dv := 0; dv < f.Limbs; dv++ {
			for pj := 0; pj < np; pj++ {
				if !big_ && (pj+dv+pi)%3 != 0 {
					continue
				}
				raw2 := new(big.Int)
				for i := 0; i < f.Limbs; i++ {
					p := pats(i)[pi]
					if i == dv {
						p = pats(i)[pj]
					}
					raw2.Or(raw2, new(big.Int).Lsh(new(big.Int).And(p, mask), uint(i*w)))
				}
				if f.Limbs > 1 {
					addRaw(raw2, "mont-limbs-mixed")
				}
			}
		}
	}
	// q with last limb borrowed etc. raw = q-1, q-2^w, ...
	for i := 0; i < f.Limbs; i++ {
		addRaw(sub(q, new(big.Int).Lsh(one, uint(i*w))), "mont-raw-q-2^iw")
	}
	// raw (Montgomery) representations at the thresholds of doubling and halving: 2*raw crosses q or 2^Bits just there
	top := new(big.Int).Lsh(one, uint(f.Bits-1))
	for _, raw := range []*big.Int{h, new(big.Int).Add(h, one), sub(h, one), sub(top, one), top, new(big.Int).Add(top, one),
		sub(q, one), sub(q, big.NewInt(2)), new(big.Int).Div(q, big.NewInt(3)), new(big.Int).Add(new(big.Int).Div(q, big.NewInt(3)), one),
		sub(top, new(big.Int).Lsh(one, uint(f.Bits/2-1))), new(big.Int).Add(sub(top, new(big.Int).Lsh(one, uint(f.Bits/2-1))), one)} {
		addRaw(raw, "mont-raw-threshold")
	}
	for i := 0; i < nRandom; i++ {
		add(rng.BigBelow(q), "random")
	}
	return out
}
