// Package fields exposes every prime-field package of the library behind one generic descriptor.
package fields

import (
	"io"
	"math/big"
	"sync"
	"unsafe"
)

// Ptr is the method set shared by all *Element types.
type Ptr[E any] interface {
	*E
	Add(x, y *E) *E
	Sub(x, y *E) *E
	Mul(x, y *E) *E
	Square(x *E) *E
	Neg(x *E) *E
	Double(x *E) *E
	Inverse(x *E) *E
	Div(x, y *E) *E
	Sqrt(x *E) *E
	Legendre() int
	Halve()
	Exp(x E, k *big.Int) *E
	Set(x *E) *E
	SetZero() *E
	SetOne() *E
	SetUint64(uint64) *E
	SetInt64(int64) *E
	SetBigInt(*big.Int) *E
	BigInt(*big.Int) *big.Int
	ToBigIntRegular(*big.Int) *big.Int
	Cmp(x *E) int
	Equal(x *E) bool
	IsZero() bool
	IsOne() bool
	IsUint64() bool
	Uint64() uint64
	FitsOnOneWord() bool
	LexicographicallyLargest() bool
	Select(c int, x0, x1 *E) *E
	BitLen() int
	String() string
	Text(base int) string
	Marshal() []byte
	Unmarshal([]byte)
	SetBytes([]byte) *E
	SetBytesCanonical([]byte) error
	SetString(string) (*E, error)
	SetInterface(any) (*E, error)
	MarshalJSON() ([]byte, error)
	UnmarshalJSON([]byte) error
	SetRandom() (*E, error)
}

// Field describes one field package.
type Field[E any, P Ptr[E]] struct {
	Name     string
	Modulus  *big.Int
	Bytes    int
	Limbs    int
	LimbBits int
	Bits     int

	One        func() E
	NewElement func(uint64) E

	BatchInvert func([]E) []E
	Butterfly   func(a, b *E)
	MulBy3      func(*E)
	MulBy5      func(*E)
	MulBy13     func(*E)
	Hash        func(msg, dst []byte, count int) ([]E, error)
	NotEqual    func(a, b *E) uint64
	BitsOf      func(a *E) []uint64
	BytesOf     func(a *E) []byte
	BEElement   func(b []byte) (E, error)
	LEElement   func(b []byte) (E, error)
	BEPut       func(b []byte, e E)
	LEPut       func(b []byte, e E)

	VecAdd             func(r, a, b []E)
	VecSub             func(r, a, b []E)
	VecMul             func(r, a, b []E)
	VecScalarMul       func(r, a []E, b *E)
	VecSum             func(a []E) E
	VecInnerProduct    func(a, b []E) E
	VecWriteTo         func(a []E, w io.Writer) (int64, error)
	VecReadFrom        func(r io.Reader) ([]E, int64, error)
	VecAsyncReadFrom   func(r io.Reader) ([]E, int64, error, chan error)
	// the same decoders with a receiver that already holds a vector (stale content, any length)
	VecReadFromInto        func(dst []E, r io.Reader) ([]E, int64, error)
	VecAsyncReadFromInto   func(dst []E, r io.Reader) ([]E, int64, error, chan error)
	VecUnmarshalBinaryInto func(dst []E, b []byte) ([]E, error)
	VecMarshalBinary   func(a []E) ([]byte, error)
	VecUnmarshalBinary func(b []byte) ([]E, error)
	VecString          func(a []E) string

	// optional (nil when the package has none)
	InverseExp       func(z *E, x E) *E
	MulGeneric       func(z, x, y *E)
	FromMontGeneric  func(z *E)
	ReduceGeneric    func(z *E)
	ButterflyGeneric func(a, b *E)
	Mul2ExpNegN      func(z, x *E, n uint32) *E

	once    sync.Once
	r, rinv *big.Int
}

func (f *Field[E, P]) init() {
	f.once.Do(func() {
		f.r = new(big.Int).Lsh(big.NewInt(1), uint(f.Limbs*f.LimbBits))
		f.r.Mod(f.r, f.Modulus)
		f.rinv = new(big.Int).ModInverse(f.r, f.Modulus)
	})
}

// Raw returns the little-endian integer encoded by the limbs of e (the Montgomery representative).
func (f *Field[E, P]) Raw(e *E) *big.Int {
	sz := int(unsafe.Sizeof(*e))
	b := unsafe.Slice((*byte)(unsafe.Pointer(e)), sz)
	be := make([]byte, sz)
	for i := range b {
		be[sz-1-i] = b[i]
	}
	return new(big.Int).SetBytes(be)
}

// SetRaw writes v (must fit) directly into the limbs of e.
func (f *Field[E, P]) SetRaw(e *E, v *big.Int) {
	sz := int(unsafe.Sizeof(*e))
	b := unsafe.Slice((*byte)(unsafe.Pointer(e)), sz)
	be := v.Bytes()
	for i := range b {
		b[i] = 0
	}
	for i := 0; i < len(be) && i < sz; i++ {
		b[i] = be[len(be)-1-i]
	}
}

// Canonical reports whether the raw limbs encode an integer < q.
func (f *Field[E, P]) Canonical(e *E) bool { return f.Raw(e).Cmp(f.Modulus) < 0 }

// R returns 2^(Limbs*LimbBits) mod q... the Montgomery radix.
func (f *Field[E, P]) R() *big.Int {
	f.init()
	return new(big.Int).Set(f.r)
}

// Value returns the integer value of e computed WITHOUT the library's conversion routines:
// raw * R^{-1} mod q.
func (f *Field[E, P]) Value(e *E) *big.Int {
	f.init()
	v := f.Raw(e)
	v.Mul(v, f.rinv)
	return v.Mod(v, f.Modulus)
}

// FromValue builds an element from an integer in [0,q) WITHOUT the library's conversion routines.
func (f *Field[E, P]) FromValue(v *big.Int) E {
	var e E
	f.init()
	m := new(big.Int).Mul(v, f.r)
	m.Mod(m, f.Modulus)
	f.SetRaw(&e, m)
	return e
}
