// Package pairings exposes the 7 pairings: every computation variant on the points [a_i]G1, [b_i]G2.
package pairings

import (
	"errors"
	"math/big"

	"verif/harness/oracle/ofield"
)

var ErrInputModified = errors.New("verif: the call modified its input slices")

type Pairing struct {
	Name string
	P, R *big.Int
	// GT computes prod e([a_i]G1,[b_i]G2) with the named variant; the result is flattened to oracle coefficients.
	GT func(variant string, as, bs []*big.Int) (ofield.El, error)
	// Check runs PairingCheck / PairingCheckFixedQ.
	Check func(variant string, as, bs []*big.Int) (bool, error)
}

var GTVariants = []string{"Pair", "MillerLoop+FinalExponentiation", "split-MillerLoops+FinalExponentiation", "per-pair-MillerLoops+FinalExponentiation", "PairFixedQ", "MillerLoopFixedQ+FinalExponentiation"}
var CheckVariants = []string{"PairingCheck", "PairingCheckFixedQ"}
