// Package ffts exposes the 10 FFT packages of the library (scalar fields of the 7 pairing curves, goldilocks,
// koalabear, babybear) behind one generic descriptor, and converts between library elements and oracle values
// without using the library's own conversion routines.
package ffts

import (
	"io"
	"math/big"
	"unsafe"

	"verif/harness/adapt/fields"
)

// Pub points at the exported fields of a library Domain.
type Pub[E any] struct {
	Cardinality            *uint64
	CardinalityInv         *E
	Generator              *E
	GeneratorInv           *E
	FrMultiplicativeGen    *E
	FrMultiplicativeGenInv *E
}

// Inst describes one fft package: E = field element, D = fft.Domain.
type Inst[E any, P fields.Ptr[E], D any] struct {
	Name string // e.g. "ecc/bn254/fr/fft"
	F    *fields.Field[E, P]

	// NewDomain calls fft.NewDomain(m, [WithShift(*shift)], [WithoutPrecompute()]).
	NewDomain func(m uint64, shift *E, precompute bool) *D
	// FFT / FFTInverse: dit selects fft.DIT (else DIF); coset adds OnCoset(); setNb adds WithNbTasks(nb).
	FFT            func(d *D, a []E, dit, coset bool, nb int, setNb bool)
	FFTInverse     func(d *D, a []E, dit, coset bool, nb int, setNb bool)
	BitReverse     func(v []E)
	Generator      func(m uint64) (E, error) // fft.Generator
	FieldGenerator func(m uint64) (E, error) // <field>.Generator
	MulGen         func() E                  // fft.GeneratorFullMultiplicativeGroup
	BuildExpTable  func(w E, table []E)

	Pub           func(d *D) Pub[E]
	Twiddles      func(d *D) ([][]E, error)
	TwiddlesInv   func(d *D) ([][]E, error)
	CosetTable    func(d *D) ([]E, error)
	CosetTableInv func(d *D) ([]E, error)
	WriteTo       func(d *D, w io.Writer) (int64, error)
	ReadFrom      func(d *D, r io.Reader) (int64, error)
}

// Words returns the limbs of e as little-endian 64-bit words (one word for the 31-bit fields).
func Words[E any](e *E) []uint64 {
	sz := int(unsafe.Sizeof(*e))
	if sz == 4 {
		return []uint64{uint64(*(*uint32)(unsafe.Pointer(e)))}
	}
	src := unsafe.Slice((*uint64)(unsafe.Pointer(e)), sz/8)
	out := make([]uint64, len(src))
	copy(out, src)
	return out
}

// Limb0 returns the least significant limb of e (the whole element for one-limb fields).
func Limb0[E any](e *E) uint64 {
	if unsafe.Sizeof(*e) == 4 {
		return uint64(*(*uint32)(unsafe.Pointer(e)))
	}
	return *(*uint64)(unsafe.Pointer(e))
}

// SetLimb0 writes the least significant limb of e and clears the others.
func SetLimb0[E any](e *E, v uint64) {
	var z E
	*e = z
	if unsafe.Sizeof(*e) == 4 {
		*(*uint32)(unsafe.Pointer(e)) = uint32(v)
		return
	}
	*(*uint64)(unsafe.Pointer(e)) = v
}

// SetWords writes little-endian 64-bit words into the limbs of e.
func SetWords[E any](e *E, w []uint64) {
	sz := int(unsafe.Sizeof(*e))
	if sz == 4 {
		var v uint64
		if len(w) > 0 {
			v = w[0]
		}
		*(*uint32)(unsafe.Pointer(e)) = uint32(v)
		return
	}
	dst := unsafe.Slice((*uint64)(unsafe.Pointer(e)), sz/8)
	for i := range dst {
		dst[i] = 0
		if i < len(w) {
			dst[i] = w[i]
		}
	}
}

// RawEqual compares the memory of two element slices (same length).
func RawEqual[E any](a, b []E) bool {
	if len(a) != len(b) {
		return false
	}
	if len(a) == 0 {
		return true
	}
	sz := int(unsafe.Sizeof(a[0])) * len(a)
	x := unsafe.Slice((*byte)(unsafe.Pointer(&a[0])), sz)
	y := unsafe.Slice((*byte)(unsafe.Pointer(&b[0])), sz)
	return string(x) == string(y)
}

// Conv converts between library elements (Montgomery limbs) and integers in [0,q), independently of the library:
// value = raw * R^-1 mod q, raw = value * R mod q, R = 2^(bits of the limb array).
type Conv[E any] struct {
	Q, R, RInv *big.Int
	small      bool
	q, r, rinv uint64
}

func NewConv[E any, P fields.Ptr[E]](f *fields.Field[E, P]) *Conv[E] {
	c := &Conv[E]{Q: new(big.Int).Set(f.Modulus)}
	c.R = new(big.Int).Lsh(big.NewInt(1), uint(f.Limbs*f.LimbBits))
	c.R.Mod(c.R, c.Q)
	c.RInv = new(big.Int).ModInverse(c.R, c.Q)
	if c.Q.BitLen() <= 64 {
		c.small = true
		c.q, c.r, c.rinv = c.Q.Uint64(), c.R.Uint64(), c.RInv.Uint64()
	}
	return c
}

// Raw returns the integer held in the limbs.
func (c *Conv[E]) Raw(e *E) *big.Int {
	w := Words(e)
	bw := make([]big.Word, len(w))
	for i := range w {
		bw[i] = big.Word(w[i])
	}
	return new(big.Int).SetBits(bw)
}

// Value returns the field value of e.
func (c *Conv[E]) Value(e *E) *big.Int {
	v := c.Raw(e)
	v.Mul(v, c.RInv)
	return v.Mod(v, c.Q)
}

// Canonical reports raw < q.
func (c *Conv[E]) Canonical(e *E) bool { return c.Raw(e).Cmp(c.Q) < 0 }

// FromValue builds the canonical element holding v (0 <= v < q).
func (c *Conv[E]) FromValue(v *big.Int) E {
	var e E
	m := new(big.Int).Mul(v, c.R)
	m.Mod(m, c.Q)
	bw := m.Bits()
	w := make([]uint64, len(bw))
	for i := range bw {
		w[i] = uint64(bw[i])
	}
	SetWords(&e, w)
	return e
}
