// Package groups exposes every short-Weierstrass group of the library (G1/G2 of the pairing curves,
// secp256k1, stark-curve, grumpkin) as a table of operations over oracle-level coordinates.
package groups

import (
	"errors"
	"fmt"
	"math/big"
	"sync/atomic"

	"verif/harness/adapt/towers"
	"verif/harness/oracle/ocurve"
	"verif/harness/oracle/ofield"
)

// Rep is a point in some coordinate system: "aff" [X,Y] ((0,0) = infinity), "jac" [X,Y,Z],
// "ext" [X,Y,ZZ,ZZZ], or "bool" (B).
type Rep struct {
	Sys  string
	C    []ofield.El
	B    bool
	Note string // Sys "note": the adapter observed a contract violation that has no value (see the text)
}

// ErrInputModified is returned by adapters when a call changed its input slices.
var ErrInputModified = errors.New("verif: the call modified its input slices")

func repBool(b bool) Rep { return Rep{Sys: "bool", B: b} }

// Op is one library operation: Sem names the group-law meaning.
// msmCalls alternates fresh and used receivers in the MSM adapters.
var msmCalls atomic.Int64

type Op struct {
	Name     string
	Sem      string // add sub dbl dblneg neg id id-noninf smul smulbase jsmul jsmulbase clearcofactor isinf oncurve insubgroup equal
	In       []string
	Out      string
	NScalars int
	F        func(in []Rep, sc []*big.Int) Rep
}

type Group struct {
	Name, Curve, Which, CoordKind string
	P, R                          *big.Int
	Gen                           Rep
	A1, B1                        *big.Int // coefficients of the base curve E/Fp
	Ops                           []Op
	BatchScalarMul                func(base Rep, scalars []*big.Int) []Rep
	BatchJacToAff                 func(pts []Rep) []Rep
	Lib                           func(r Rep) any // pointer to a fresh library value (G?Affine, G?Jac, extended) holding r
	FromLib                       func(p any) Rep

	// MSM (nil for groups without multiexp): points are referenced by index into a pool set once
	FrBits           int
	MSMWindows       []uint64 // window sizes the library itself selects (implementedCs)
	MSMSetPool       func(pool []Rep)
	MultiExp         func(idx []int, scalars []*big.Int, nbTasks int, variant string) (Rep, error)
	Fold             func(idx []int, coeff *big.Int, nbTasks int, variant string) (Rep, error)
	InnerMsm         func(c uint64, idx []int, scalars []*big.Int, nbTasks int) Rep
	PartitionScalars func(scalars []*big.Int, c uint64, nbTasks int) []uint16

	// oracle side (filled by Bind)
	F  *ofield.Fld
	C  *ocurve.Curve
	G  ocurve.Pt
	Tw *towers.Tower
}

// Bind builds the oracle curve and validates the library constants against it:
// generator on the curve, [r]G = O, r prime. Returns an error when validation fails.
func (g *Group) Bind() error {
	g.Tw = towers.For(g.Curve, g.P)
	if g.Which == "G1" {
		g.F = g.Tw.Fp
	} else {
		g.F = g.Tw.G2F
	}
	f := g.F
	if len(g.Gen.C[0]) != f.Deg() {
		return fmt.Errorf("%s: coordinate degree %d does not match oracle field degree %d", g.Name, len(g.Gen.C[0]), f.Deg())
	}
	g.G = ocurve.Pt{X: g.Gen.C[0], Y: g.Gen.C[1]}
	var a, b ofield.El
	if g.Which == "G1" {
		a, b = f.FromInt(g.A1), f.FromInt(g.B1)
	} else {
		// twist: a = 0, b' derived from the generator (validated below by [r]G = O)
		a = f.Zero()
		b = f.Sub(f.Sqr(g.G.Y), f.Mul(f.Sqr(g.G.X), g.G.X))
	}
	g.C = &ocurve.Curve{F: f, A: a, B: b}
	if !g.C.IsOnCurve(g.G) {
		return fmt.Errorf("%s: generator is not on the oracle curve", g.Name)
	}
	if !g.R.ProbablyPrime(20) {
		return fmt.Errorf("%s: group order is not prime", g.Name)
	}
	if rg := g.C.Mul(g.G, g.R); !rg.Inf {
		return fmt.Errorf("%s: [r]G != O in the oracle", g.Name)
	}
	return nil
}

// Pt converts a Rep (any system) to the oracle affine point it denotes; ok=false when the
// representation is malformed (Z = 0 with the convention handled by the caller).
func (g *Group) Pt(r Rep) ocurve.Pt {
	f := g.F
	switch r.Sys {
	case "aff":
		if f.IsZero(r.C[0]) && f.IsZero(r.C[1]) {
			return ocurve.Pt{Inf: true}
		}
		return ocurve.Pt{X: r.C[0], Y: r.C[1]}
	case "jac":
		if f.IsZero(r.C[2]) {
			return ocurve.Pt{Inf: true}
		}
		zi := f.Inv(r.C[2])
		zi2 := f.Sqr(zi)
		return ocurve.Pt{X: f.Mul(r.C[0], zi2), Y: f.Mul(r.C[1], f.Mul(zi2, zi))}
	case "ext":
		if f.IsZero(r.C[2]) {
			return ocurve.Pt{Inf: true}
		}
		return ocurve.Pt{X: f.Div(r.C[0], r.C[2]), Y: f.Div(r.C[1], r.C[3])}
	}
	panic("groups: bad system " + r.Sys)
}

// Rep builds a representative of p in system sys scaled by z (z != 0; ignored for "aff").
// Infinity: aff (0,0); jac (1,1,0) scaled as (z^2, z^3, 0); ext (1,1,0,0).
func (g *Group) Rep(p ocurve.Pt, sys string, z ofield.El) Rep {
	f := g.F
	switch sys {
	case "aff":
		if p.Inf {
			return Rep{Sys: "aff", C: []ofield.El{f.Zero(), f.Zero()}}
		}
		return Rep{Sys: "aff", C: []ofield.El{f.Copy(p.X), f.Copy(p.Y)}}
	case "jac":
		z2 := f.Sqr(z)
		z3 := f.Mul(z2, z)
		if p.Inf {
			return Rep{Sys: "jac", C: []ofield.El{z2, z3, f.Zero()}}
		}
		return Rep{Sys: "jac", C: []ofield.El{f.Mul(p.X, z2), f.Mul(p.Y, z3), f.Copy(z)}}
	case "ext":
		z2 := f.Sqr(z)
		z3 := f.Mul(z2, z)
		if p.Inf {
			return Rep{Sys: "ext", C: []ofield.El{f.One(), f.One(), f.Zero(), f.Zero()}}
		}
		return Rep{Sys: "ext", C: []ofield.El{f.Mul(p.X, z2), f.Mul(p.Y, z3), z2, z3}}
	}
	panic("groups: bad system " + sys)
}

func (g *Group) Str(r Rep) string {
	if r.Sys == "bool" {
		return fmt.Sprint(r.B)
	}
	s := r.Sys + "("
	for i, c := range r.C {
		if i > 0 {
			s += ", "
		}
		s += g.F.String(c)
	}
	return s + ")"
}
