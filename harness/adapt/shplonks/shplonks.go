// Package shplonks exposes ecc/<curve>/shplonk and ecc/<curve>/fflonk of the 7 pairing curves behind one neutral
// operation table. Scalars (field elements, polynomial coefficients, evaluation points) are *big.Int in [0, r).
// Library objects stay library objects: G1 points are `any` holding a curve.G1Affine value, field elements handed to
// reflection are `any` holding an fr.Element value, proofs are pointers to the library's own OpeningProof structs
// (the monitor builds and reads them through reflection, so that a new proof field cannot go unnoticed), keys are
// pointers to kzg.ProvingKey / kzg.VerifyingKey.
//
// The adapter converts representations only (SetBigInt / BigInt, slice copies). The single group operation it offers
// is G1Mul = ScalarMultiplicationBase, used by the monitor to turn a discrete logarithm chosen by the oracle into the
// library's point type (cross-checked in the run against oracle/ocurve).
package shplonks

import (
	"errors"
	"hash"
	"math/big"
)

// ErrInputModified is returned when a library call changed one of its input slices (polynomials, digests, points).
var ErrInputModified = errors.New("verif: the call modified its input slices")

// Inst is one curve.
type Inst struct {
	Name           string // curve directory name, e.g. "bls12-377"
	P, R           *big.Int
	CurveA, CurveB *big.Int // E/Fp: y^2 = x^3 + A x + B
	G1X, G1Y       *big.Int // generator of G1
	FrBytes        int
	MulGen         *big.Int // fft.GeneratorFullMultiplicativeGroup(): the documented source of the roots of unity of fflonk

	SErrs, FErrs map[string]error // sentinel errors of the shplonk / fflonk package by name

	NewSRS   func(size uint64, tau *big.Int) (pk, vk any, err error)
	PkLen    func(pk any) int
	PkPrefix func(pk any, n int) any

	G1Mul     func(k *big.Int) any // [k]G1 as curve.G1Affine
	G1XY      func(p any) (x, y *big.Int)
	G1Marshal func(p any) []byte // the byte string bound into the Fiat-Shamir transcript
	Fr        func(v *big.Int) any
	FrVal     func(e any) *big.Int
	FrMarshal func(v *big.Int) []byte

	Commit func(poly []*big.Int, pk any) (any, error)

	NewSProof func() any // *shplonk.OpeningProof (zero value)
	NewFProof func() any // *fflonk.OpeningProof (zero value)
	SOpen     func(polys [][]*big.Int, digests []any, points [][]*big.Int, hf hash.Hash, pk any, data ...[]byte) (any, error)
	SVerify   func(proof any, digests []any, points [][]*big.Int, hf hash.Hash, vk any, data ...[]byte) error

	FFold          func(p [][]*big.Int) []*big.Int
	FFoldAndCommit func(p [][]*big.Int, pk any) (any, error)
	FOpen          func(p [][][]*big.Int, digests []any, points [][]*big.Int, hf hash.Hash, pk any, data ...[]byte) (any, error)
	FVerify        func(proof any, digests []any, points [][]*big.Int, hf hash.Hash, vk any, data ...[]byte) error
}
