// Package kzgs exposes the 7 KZG packages (ecc/<curve>/kzg) and the curve-typed constructor of the
// top-level kzg package behind one neutral operation table: scalars are *big.Int in [0, r), G1 points
// are affine coordinate pairs ((0,0) = infinity), G2 points are flattened tower coordinates; keys,
// reference strings, polynomials and setup transcripts are opaque handles (pointers to / slices of
// the library's own types), so that one library object can be observed over a whole history of calls.
//
// The adapter only converts representations (fp/fr SetBigInt / BigInt, struct copies); it calls no
// group or pairing arithmetic on behalf of the monitor.
package kzgs

import (
	"errors"
	"hash"
	"math/big"

	"verif/harness/oracle/ofield"
)

// Pt is an affine G1 point; X = Y = 0 encodes the point at infinity (library convention).
type Pt struct{ X, Y *big.Int }

func (p Pt) Inf() bool    { return p.X.Sign() == 0 && p.Y.Sign() == 0 }
func (p Pt) Eq(q Pt) bool { return p.X.Cmp(q.X) == 0 && p.Y.Cmp(q.Y) == 0 }
func Infinity() Pt        { return Pt{new(big.Int), new(big.Int)} }
func (p Pt) String() string {
	if p.Inf() {
		return "O"
	}
	x := p.X.Text(16)
	if len(x) > 12 {
		x = x[:12] + "…"
	}
	return "(" + x + ",…)"
}

// G2 is an affine G2 point with flattened tower coordinates (adapt/towers order).
type G2 struct{ X, Y ofield.El }

// Proof mirrors OpeningProof; BatchProof mirrors BatchOpeningProof.
type Proof struct {
	H Pt
	V *big.Int
}
type BatchProof struct {
	H  Pt
	Vs []*big.Int
}

// ErrInputModified is returned by adapter calls when the library call changed one of its input slices
// (digests, proofs, points, claimed values). Polynomial handles are checked by the caller (PolyVals).
var ErrInputModified = errors.New("verif: the call modified its input slices")

// Inst is one KZG instantiation.
type Inst struct {
	Name string // curve directory name, e.g. "bls12-377"
	Pkg  string // "ecc/bls12-377/kzg"
	P, R *big.Int
	A, B *big.Int // E/Fp: y^2 = x^3 + A x + B
	G1   Pt
	G2   G2
	// NLinesType is the array length of VerifyingKey.Lines[k][j] (a property of the type).
	NLinesType int
	FrBytes    int

	// sentinel errors of the package by name (ErrInvalidNbDigests, ErrZeroNbDigests, ErrInvalidPolynomialSize,
	// ErrVerifyOpeningProof, ErrVerifyBatchOpeningSinglePoint, ErrMinSRSSize)
	Errs map[string]error

	// reference strings: handles are *SRS, *ProvingKey, *VerifyingKey
	NewSRS    func(size uint64, alpha *big.Int) (srs any, err error)
	Pk, Vk    func(srs any) any // pointers INTO the srs (no copy)
	MakeSRS   func(pk, vk any) any
	PkPoints  func(pk any) []Pt
	PkPrefix  func(pk any, n int) any // a ProvingKey sharing the first n points
	VkPoints  func(vk any) (g1 Pt, g2 [2]G2)
	VkLinesOK func(vk any) bool // Lines[k] == PrecomputeLines(G2[k]) for k = 0, 1 (array comparison)
	CloneVk   func(vk any) any
	VkEqual   func(a, b any) bool
	// EqualObj compares two handles of the same kind (*SRS, *ProvingKey, *VerifyingKey, *OpeningProof,
	// *BatchOpeningProof) field by field (slices by length and content).
	EqualObj func(a, b any) bool
	// NewObj returns a pointer to the zero value of the named type: SRS, ProvingKey, VerifyingKey,
	// OpeningProof, BatchOpeningProof, MpcSetup, TopLevelSRS (kzg.NewSRS(curveID) of the top-level package).
	NewObj        func(kind string) any
	IsSRS         func(x any) bool // x is *SRS of this curve's package
	ProofObj      func(Proof) any
	ObjProof      func(any) Proof
	BatchProofObj func(BatchProof) any
	ObjBatchProof func(any) BatchProof

	// polynomials: the handle is the library-side []fr.Element, reused across calls
	NewPoly  func(coeffs []*big.Int) any
	PolyVals func(poly any) []*big.Int

	Commit                 func(poly any, pk any, nbTasks ...int) (Pt, error)
	Open                   func(poly any, z *big.Int, pk any) (Proof, error)
	Verify                 func(c Pt, pr Proof, z *big.Int, vk any) error
	BatchOpenSinglePoint   func(polys []any, digests []Pt, z *big.Int, hf hash.Hash, pk any, data ...[]byte) (BatchProof, error)
	FoldProof              func(digests []Pt, bp BatchProof, z *big.Int, hf hash.Hash, data ...[]byte) (Proof, Pt, error)
	BatchVerifySinglePoint func(digests []Pt, bp BatchProof, z *big.Int, hf hash.Hash, vk any, data ...[]byte) error
	BatchVerifyMultiPoints func(digests []Pt, proofs []Proof, zs []*big.Int, vk any) error
	ToLagrangeG1           func(pts []Pt) ([]Pt, error)

	// MarshalG1 / MarshalFr are the byte strings the package binds into its Fiat-Shamir transcript.
	MarshalG1 func(Pt) []byte
	MarshalFr func(*big.Int) []byte

	// setup transcripts: the handle is *MpcSetup
	InitializeSetup func(n int) any
	Contribute      func(s any)
	VerifySetup     func(prev, next any) error
	Seal            func(s any, beacon []byte) any // returns *SRS
}
