package oh2c

import (
	"math/big"

	"verif/harness/gen"
	"verif/harness/oracle/ofield"
)

// Univariate polynomials over an oracle field (ascending coefficients), just enough to find the roots
// in F of a polynomial: gcd with x^q - x, then Cantor-Zassenhaus equal-degree splitting.

type poly []ofield.El

func ptrim(f *ofield.Fld, a poly) poly {
	for len(a) > 0 && f.IsZero(a[len(a)-1]) {
		a = a[:len(a)-1]
	}
	return a
}

func pmonic(f *ofield.Fld, a poly) poly {
	a = ptrim(f, a)
	if len(a) == 0 {
		return a
	}
	inv := f.Inv(a[len(a)-1])
	out := make(poly, len(a))
	for i := range a {
		out[i] = f.Mul(a[i], inv)
	}
	return out
}

// pmod returns a mod m (m monic, non-constant or constant 1).
func pmod(f *ofield.Fld, a, m poly) poly {
	r := make(poly, len(a))
	for i := range a {
		r[i] = f.Copy(a[i])
	}
	dm := len(m) - 1
	for len(r)-1 >= dm && len(r) > 0 {
		lc := r[len(r)-1]
		if !f.IsZero(lc) {
			sh := len(r) - 1 - dm
			for i := 0; i <= dm; i++ {
				r[sh+i] = f.Sub(r[sh+i], f.Mul(lc, m[i]))
			}
		}
		r = r[:len(r)-1]
	}
	return ptrim(f, r)
}

func pmulmod(f *ofield.Fld, a, b, m poly) poly {
	if len(a) == 0 || len(b) == 0 {
		return nil
	}
	pr := make(poly, len(a)+len(b)-1)
	for i := range pr {
		pr[i] = f.Zero()
	}
	for i := range a {
		for j := range b {
			pr[i+j] = f.Add(pr[i+j], f.Mul(a[i], b[j]))
		}
	}
	return pmod(f, pr, m)
}

func ppowmod(f *ofield.Fld, a poly, k *big.Int, m poly) poly {
	r := poly{f.One()}
	a = pmod(f, a, m)
	for i := k.BitLen() - 1; i >= 0; i-- {
		r = pmulmod(f, r, r, m)
		if k.Bit(i) == 1 {
			r = pmulmod(f, r, a, m)
		}
	}
	return r
}

func psub(f *ofield.Fld, a, b poly) poly {
	n := len(a)
	if len(b) > n {
		n = len(b)
	}
	out := make(poly, n)
	for i := range out {
		x, y := f.Zero(), f.Zero()
		if i < len(a) {
			x = a[i]
		}
		if i < len(b) {
			y = b[i]
		}
		out[i] = f.Sub(x, y)
	}
	return ptrim(f, out)
}

func pgcd(f *ofield.Fld, a, b poly) poly {
	a, b = ptrim(f, a), ptrim(f, b)
	for len(b) > 0 {
		bm := pmonic(f, b)
		a, b = bm, pmod(f, a, bm)
	}
	return pmonic(f, a)
}

// linearPart returns the product of the distinct linear factors of m (monic) over F.
func linearPart(f *ofield.Fld, m poly) poly {
	if len(m) <= 1 {
		return poly{f.One()}
	}
	x := poly{f.Zero(), f.One()}
	xq := ppowmod(f, x, f.Order(), m)
	return pgcd(f, m, psub(f, xq, x))
}

// RootsInF returns the distinct roots in F of the polynomial with the given ascending coefficients.
func RootsInF(f *ofield.Fld, coeffs []ofield.El, rng *gen.Rng) []ofield.El {
	m := pmonic(f, poly(coeffs))
	if len(m) <= 1 {
		return nil
	}
	g := linearPart(f, m)
	var roots []ofield.El
	half := new(big.Int).Rsh(new(big.Int).Sub(f.Order(), big.NewInt(1)), 1)
	var split func(h poly)
	split = func(h poly) {
		switch len(h) - 1 {
		case 0, -1:
			return
		case 1:
			roots = append(roots, f.Neg(h[0])) // monic: x + h0
			return
		}
		for {
			a := make(ofield.El, f.Deg())
			for i := range a {
				a[i] = rng.BigBelow(f.P)
			}
			t := ppowmod(f, poly{a, f.One()}, half, h)
			t = psub(f, t, poly{f.One()})
			d := pgcd(f, h, t)
			if len(d) > 1 && len(d) < len(h) {
				split(d)
				// h / d by gcd with the complement: divide
				split(pdiv(f, h, d))
				return
			}
		}
	}
	split(g)
	return roots
}

// pdiv returns a / b for b monic dividing a exactly.
func pdiv(f *ofield.Fld, a, b poly) poly {
	r := make(poly, len(a))
	for i := range a {
		r[i] = f.Copy(a[i])
	}
	db := len(b) - 1
	q := make(poly, len(a)-db)
	for i := len(a) - 1; i >= db; i-- {
		c := r[i]
		q[i-db] = c
		if !f.IsZero(c) {
			for j := 0; j <= db; j++ {
				r[i-db+j] = f.Sub(r[i-db+j], f.Mul(c, b[j]))
			}
		}
	}
	return pmonic(f, q)
}

// CubicHasNoRoot reports whether the polynomial (ascending coefficients, any degree) has no root in F;
// for a cubic this is irreducibility.
func CubicHasNoRoot(f *ofield.Fld, coeffs []ofield.El) bool {
	m := pmonic(f, poly(coeffs))
	return len(linearPart(f, m)) == 1
}
