// Package oh2c is the reference model of RFC 9380 written from the text of the RFC:
// expand_message_xmd (5.3.1) with SHA-256, hash_to_field (5.2), sgn0 (4.1), the *generic*
// (non straight-line) definitions of the Shallue-van de Woestijne map (6.6.1) and of the
// simplified SWU map (6.6.2), the selection criteria of their constant Z, and the evaluation of
// an isogeny given as rational maps (Appendix E). All arithmetic goes through oracle/ofield.
package oh2c

import (
	"crypto/sha256"
	"errors"
	"fmt"
	"math/big"

	"verif/harness/oracle/ocurve"
	"verif/harness/oracle/ofield"
)

// ---------------------------------------------------------------------------------------------
// 5.3.1 expand_message_xmd, H = SHA-256 (b_in_bytes = 32, s_in_bytes = 64)

var (
	ErrLen = errors.New("oh2c: ell > 255 or len_in_bytes > 65535")
	ErrDST = errors.New("oh2c: len(DST) > 255")
)

// ExpandXMD returns uniform_bytes of length n, or the ABORT condition of step 2.
func ExpandXMD(msg, dst []byte, n int) ([]byte, error) {
	const b = 32
	ell := (n + b - 1) / b
	if ell > 255 || n > 65535 {
		return nil, ErrLen
	}
	if len(dst) > 255 {
		return nil, ErrDST
	}
	dstPrime := append(append([]byte{}, dst...), byte(len(dst)))
	msgPrime := make([]byte, 64, 64+len(msg)+3+len(dstPrime))
	msgPrime = append(msgPrime, msg...)
	msgPrime = append(msgPrime, byte(n>>8), byte(n), 0)
	msgPrime = append(msgPrime, dstPrime...)
	b0 := sha256.Sum256(msgPrime)
	var uniform []byte
	prev := sha256.Sum256(append(append(append([]byte{}, b0[:]...), 1), dstPrime...)) // b_1 (computed even when ell = 0)
	uniform = append(uniform, prev[:]...)
	for i := 2; i <= ell; i++ {
		x := make([]byte, b, b+1+len(dstPrime))
		for j := range x {
			x[j] = b0[j] ^ prev[j]
		}
		x = append(x, byte(i))
		x = append(x, dstPrime...)
		prev = sha256.Sum256(x)
		uniform = append(uniform, prev[:]...)
	}
	return uniform[:n], nil
}

// L returns ceil((ceil(log2(p)) + k) / 8) for the security parameter k.
func L(p *big.Int, k int) int {
	lg := p.BitLen() // p is an odd prime: ceil(log2 p) = bit length
	return (lg + k + 7) / 8
}

// HashToField implements hash_to_field(msg, count) for F = GF(p^m), k = 128:
// result[i][j] = e_j of u_i.
func HashToField(msg, dst []byte, count int, p *big.Int, m int) ([][]*big.Int, error) {
	l := L(p, 128)
	ub, err := ExpandXMD(msg, dst, count*m*l)
	if err != nil {
		return nil, err
	}
	out := make([][]*big.Int, count)
	for i := 0; i < count; i++ {
		out[i] = make([]*big.Int, m)
		for j := 0; j < m; j++ {
			off := l * (j + i*m)
			tv := new(big.Int).SetBytes(ub[off : off+l])
			out[i][j] = tv.Mod(tv, p)
		}
	}
	return out, nil
}

// ---------------------------------------------------------------------------------------------
// 4.1 sgn0 for GF(p^m), element given by its coefficient vector (x_1, ..., x_m).

func Sgn0(x ofield.El) uint64 {
	sign, zero := uint64(0), uint64(1)
	for _, xi := range x {
		si := uint64(xi.Bit(0))
		zi := uint64(0)
		if xi.Sign() == 0 {
			zi = 1
		}
		sign = sign | (zero & si)
		zero = zero & zi
	}
	return sign
}

// IsSquare is is_square(x) (0 counts as a square). Prime fields: Jacobi symbol. Quadratic extensions K[v]/(v^2-beta):
// x is a square iff its norm x0^2 - beta*x1^2 is a square in K (x^((q^2-1)/2) = N(x)^((q-1)/2)). Other shapes: Euler.
func IsSquare(f *ofield.Fld, x ofield.El) bool {
	if f.IsZero(x) {
		return true
	}
	if f.Base == nil {
		return big.Jacobi(x[0], f.P) == 1
	}
	if f.N != 2 {
		return f.Legendre(x) == 1
	}
	return IsSquare(f.Base, qnorm(f, x))
}

func qnorm(f *ofield.Fld, x ofield.El) ofield.El {
	K := f.Base
	bd := K.Deg()
	x0, x1 := ofield.El(x[:bd]), ofield.El(x[bd:])
	return K.Sub(K.Sqr(x0), K.Mul(f.Beta, K.Sqr(x1)))
}

// Sqrt returns some square root of x, ok=false when there is none. Towers of quadratic extensions use the
// "complex" method (x0^2 = (a0 +- sqrt(N(a)))/2, x1 = a1/(2 x0)); the result is always verified by squaring.
func Sqrt(f *ofield.Fld, x ofield.El) (ofield.El, bool) {
	if f.Base == nil || f.N != 2 {
		return f.Sqrt(x)
	}
	K := f.Base
	bd := K.Deg()
	a0, a1 := ofield.El(x[:bd]), ofield.El(x[bd:])
	cat := func(u, v ofield.El) ofield.El {
		return append(append(ofield.El{}, K.Copy(u)...), K.Copy(v)...)
	}
	var r ofield.El
	if K.IsZero(a1) {
		if s, ok := Sqrt(K, a0); ok {
			r = cat(s, K.Zero())
		} else {
			s, ok := Sqrt(K, K.Div(a0, f.Beta))
			if !ok {
				return nil, false
			}
			r = cat(K.Zero(), s)
		}
	} else {
		s, ok := Sqrt(K, qnorm(f, x))
		if !ok {
			return nil, false
		}
		half := K.Inv(K.FromInt64(2))
		x0, ok := Sqrt(K, K.Mul(K.Add(a0, s), half))
		if !ok || K.IsZero(x0) {
			x0, ok = Sqrt(K, K.Mul(K.Sub(a0, s), half))
			if !ok || K.IsZero(x0) {
				return nil, false
			}
		}
		r = cat(x0, K.Div(a1, K.MulInt(x0, 2)))
	}
	if !f.Eq(f.Sqr(r), x) {
		panic("oh2c: square root self-check failed")
	}
	return r, true
}

func isSquare(f *ofield.Fld, x ofield.El) bool { return IsSquare(f, x) }

// MapRes is the value of a map at u. Undefined: the RFC definition has no value (its final square root does not
// exist; only possible when Z violates its criteria). Alt: a second admissible value, when the generic definition and
// the RFC's own straight-line code disagree (SSWU with g(x1) = 0: 6.6.2 selects x1, F.2 with the sqrt_ratio of
// F.2.1.1 selects x2, and g(x2) = 0 as well).
type MapRes struct {
	P         ocurve.Pt
	Branch    int
	Exc       bool // an inv0(0) was hit
	Flipped   bool // the final sign correction negated y
	Undefined bool
	Alt       *ocurve.Pt
}

func inv0(f *ofield.Fld, x ofield.El) ofield.El {
	if f.IsZero(x) {
		return f.Zero()
	}
	return f.Inv(x)
}

func g(c *ocurve.Curve, x ofield.El) ofield.El {
	f := c.F
	return f.Add(f.Add(f.Mul(f.Sqr(x), x), f.Mul(c.A, x)), c.B)
}

// ---------------------------------------------------------------------------------------------
// 6.6.1 Shallue-van de Woestijne

type SvdW struct {
	C *ocurve.Curve
	Z ofield.El

	c3   ofield.El // sqrt(-g(Z)(3Z^2+4A)) with sgn0 = 0, computed once
	c3ok bool
	c3d  bool
}

// CheckZ verifies the four criteria of 6.6.1 on Z.
func (s *SvdW) CheckZ() error {
	f := s.C.F
	gz := g(s.C, s.Z)
	if f.IsZero(gz) {
		return fmt.Errorf("g(Z) = 0")
	}
	h := f.Add(f.MulInt(f.Sqr(s.Z), 3), f.MulInt(s.C.A, 4)) // 3Z^2+4A
	t := f.Div(f.Neg(h), f.MulInt(gz, 4))
	if f.IsZero(t) {
		return fmt.Errorf("-(3Z^2+4A)/(4g(Z)) = 0")
	}
	if !IsSquare(f, t) {
		return fmt.Errorf("-(3Z^2+4A)/(4g(Z)) is not a square")
	}
	half := f.Div(f.Neg(s.Z), f.FromInt64(2))
	if !(IsSquare(f, gz) || IsSquare(f, g(s.C, half))) {
		return fmt.Errorf("neither g(Z) nor g(-Z/2) is a square")
	}
	return nil
}

// Exceptional returns the u with (1 + u^2 g(Z)) (1 - u^2 g(Z)) = 0 that exist in F.
func (s *SvdW) Exceptional() []ofield.El {
	f := s.C.F
	gz := g(s.C, s.Z)
	var out []ofield.El
	for _, sign := range []int64{1, -1} {
		t := f.Div(f.FromInt64(sign), gz)
		if r, ok := Sqrt(f, t); ok {
			out = append(out, r, f.Neg(r))
		}
	}
	return out
}

// Map is map_to_curve_svdw(u): steps 1..16 of 6.6.1. Branch = 1,2,3 (which x_i was used).
func (s *SvdW) Map(u ofield.El) MapRes {
	f := s.C.F
	one := f.One()
	gz := g(s.C, s.Z)
	tv1 := f.Mul(f.Sqr(u), gz)
	tv2 := f.Add(one, tv1)
	tv1 = f.Sub(one, tv1)
	d := f.Mul(tv1, tv2)
	res := MapRes{Exc: f.IsZero(d)}
	tv3 := inv0(f, d)
	h := f.Add(f.MulInt(f.Sqr(s.Z), 3), f.MulInt(s.C.A, 4))
	if !s.c3d {
		s.c3, s.c3ok = Sqrt(f, f.Mul(f.Neg(gz), h))
		if s.c3ok && Sgn0(s.c3) == 1 {
			s.c3 = f.Neg(s.c3)
		}
		s.c3d = true
	}
	if !s.c3ok || f.IsZero(h) {
		res.Undefined = true // Z violates criterion 2 or 3
		return res
	}
	tv4 := s.c3
	tv5 := f.Mul(f.Mul(f.Mul(u, tv1), tv3), tv4)
	tv6 := f.Div(f.MulInt(f.Neg(gz), 4), h)
	mz2 := f.Div(f.Neg(s.Z), f.FromInt64(2))
	x1 := f.Sub(mz2, tv5)
	x2 := f.Add(mz2, tv5)
	x3 := f.Add(s.Z, f.Mul(tv6, f.Sqr(f.Mul(f.Sqr(tv2), tv3))))
	var x, gx ofield.El
	switch {
	case isSquare(f, g(s.C, x1)):
		x, gx, res.Branch = x1, g(s.C, x1), 1
	case isSquare(f, g(s.C, x2)):
		x, gx, res.Branch = x2, g(s.C, x2), 2
	default:
		x, gx, res.Branch = x3, g(s.C, x3), 3
	}
	y, ok := Sqrt(f, gx)
	if !ok {
		res.Undefined = true
		return res
	}
	if Sgn0(u) != Sgn0(y) {
		y = f.Neg(y)
		res.Flipped = true
	}
	res.P = ocurve.Pt{X: x, Y: y}
	return res
}

// ---------------------------------------------------------------------------------------------
// 6.6.2 simplified SWU (A != 0, B != 0)

type SSWU struct {
	C *ocurve.Curve // the curve the map targets (E' when an isogeny follows)
	Z ofield.El
}

// CheckZ verifies A, B != 0 (key 0) and criteria 1, 2 and 4 of 6.6.2 on Z; the result maps the number of each
// violated criterion to an explanation. Criterion 3 (g(x) - Z irreducible) is checked with CubicHasNoRoot.
func (s *SSWU) CheckZ() map[int]string {
	f := s.C.F
	bad := map[int]string{}
	if f.IsZero(s.C.A) || f.IsZero(s.C.B) {
		bad[0] = "A*B = 0"
		return bad
	}
	if IsSquare(f, s.Z) {
		bad[1] = "Z is a square"
	}
	if f.Eq(s.Z, f.Neg(f.One())) {
		bad[2] = "Z = -1"
	}
	x := f.Div(s.C.B, f.Mul(s.Z, s.C.A))
	if gx := g(s.C, x); !isSquare(f, gx) {
		bad[4] = "g(B/(Z*A)) = " + f.String(gx) + " is not a square (B/(Z*A) = " + f.String(x) + ")"
	}
	return bad
}

// Exceptional returns the non-zero u with Z^2 u^4 + Z u^2 = 0 (u^2 = -1/Z) that exist in F.
func (s *SSWU) Exceptional() []ofield.El {
	f := s.C.F
	t := f.Div(f.Neg(f.One()), s.Z)
	if r, ok := Sqrt(f, t); ok {
		return []ofield.El{r, f.Neg(r)}
	}
	return nil
}

// Map is map_to_curve_simple_swu(u): steps 1..10 of 6.6.2. Branch = 1 (x1) or 2 (x2).
func (s *SSWU) Map(u ofield.El) MapRes {
	f := s.C.F
	A, B, Z := s.C.A, s.C.B, s.Z
	u2 := f.Sqr(u)
	zu2 := f.Mul(Z, u2)
	tv1 := inv0(f, f.Add(f.Sqr(zu2), zu2))
	x1 := f.Mul(f.Div(f.Neg(B), A), f.Add(f.One(), tv1))
	var res MapRes
	if f.IsZero(tv1) {
		res.Exc = true
		x1 = f.Div(B, f.Mul(Z, A))
	}
	gx1 := g(s.C, x1)
	x2 := f.Mul(zu2, x1)
	gx2 := g(s.C, x2)
	var x, gx ofield.El
	if isSquare(f, gx1) {
		x, gx, res.Branch = x1, gx1, 1
		if f.IsZero(gx1) && f.IsZero(gx2) {
			res.Alt = &ocurve.Pt{X: x2, Y: f.Zero()}
		}
	} else {
		x, gx, res.Branch = x2, gx2, 2
	}
	y, ok := Sqrt(f, gx)
	if !ok {
		res.Undefined = true
		return res
	}
	if Sgn0(u) != Sgn0(y) {
		y = f.Neg(y)
		res.Flipped = true
	}
	res.P = ocurve.Pt{X: x, Y: y}
	return res
}

// ---------------------------------------------------------------------------------------------
// Appendix E: isogeny given by rational maps x' = xn(x)/xd(x), y' = y * yn(x)/yd(x).
// Coefficients are in ascending order; when Monic is set the stored lists of the two denominators omit
// their leading coefficient 1 (degree = len).

type Iso struct {
	F              *ofield.Fld
	XN, XD, YN, YD []ofield.El
	Monic          bool
}

func (m *Iso) poly(cs []ofield.El, monic bool, x ofield.El) ofield.El {
	f := m.F
	acc := f.Zero()
	pw := f.One()
	for _, c := range cs {
		acc = f.Add(acc, f.Mul(c, pw))
		pw = f.Mul(pw, x)
	}
	if monic {
		acc = f.Add(acc, pw)
	}
	return acc
}

// Eval maps a point of E' to E; the exceptional cases (a denominator vanishes) give the identity.
func (m *Iso) Eval(p ocurve.Pt) ocurve.Pt {
	if p.Inf {
		return p
	}
	f := m.F
	xd := m.poly(m.XD, m.Monic, p.X)
	yd := m.poly(m.YD, m.Monic, p.X)
	if f.IsZero(xd) || f.IsZero(yd) {
		return ocurve.Pt{Inf: true}
	}
	xn := m.poly(m.XN, false, p.X)
	yn := m.poly(m.YN, false, p.X)
	return ocurve.Pt{X: f.Div(xn, xd), Y: f.Mul(p.Y, f.Div(yn, yd))}
}

// DenPoly returns the full coefficient list (ascending, leading coefficient included) of the x denominator.
func (m *Iso) DenPoly(which string) []ofield.El {
	cs := m.XD
	if which == "y" {
		cs = m.YD
	}
	out := append([]ofield.El{}, cs...)
	if m.Monic {
		out = append(out, m.F.One())
	}
	return out
}
