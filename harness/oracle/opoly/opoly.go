// Package opoly is the reference model for polynomials over a prime field, written from the
// definitions only (math/big, no library code): Horner evaluation, evaluation on the powers of a
// root of unity (textbook recursive radix-2 splitting, cross-checked against Horner by the
// callers' self-test), interpolation, bit reversal, multilinear extension, Eq polynomial.
package opoly

import (
	"math/big"
	"math/bits"
)

// F is the prime field Z/P.
type F struct{ P *big.Int }

func (f F) Red(a *big.Int) *big.Int { return new(big.Int).Mod(a, f.P) }
func (f F) Add(a, b *big.Int) *big.Int {
	r := new(big.Int).Add(a, b)
	if r.Cmp(f.P) >= 0 {
		r.Sub(r, f.P)
	}
	return r
}
func (f F) Sub(a, b *big.Int) *big.Int {
	r := new(big.Int).Sub(a, b)
	if r.Sign() < 0 {
		r.Add(r, f.P)
	}
	return r
}
func (f F) Neg(a *big.Int) *big.Int { return f.Sub(new(big.Int), a) }
func (f F) Mul(a, b *big.Int) *big.Int {
	r := new(big.Int).Mul(a, b)
	return r.Mod(r, f.P)
}

// Inv returns a^-1 (a != 0).
func (f F) Inv(a *big.Int) *big.Int { return new(big.Int).ModInverse(a, f.P) }

// Exp returns a^k for any integer k (a != 0 when k < 0).
func (f F) Exp(a *big.Int, k int64) *big.Int {
	if k < 0 {
		return new(big.Int).Exp(f.Inv(a), big.NewInt(-k), f.P)
	}
	return new(big.Int).Exp(a, big.NewInt(k), f.P)
}
func (f F) Int(k int64) *big.Int { return f.Red(big.NewInt(k)) }

// Horner evaluates sum q[i] x^i.
func (f F) Horner(q []*big.Int, x *big.Int) *big.Int {
	r := new(big.Int)
	for i := len(q) - 1; i >= 0; i-- {
		r.Mul(r, x)
		r.Add(r, q[i])
		r.Mod(r, f.P)
	}
	return r
}

// IsPrimitiveRoot reports whether w has multiplicative order exactly n (n a power of two).
func (f F) IsPrimitiveRoot(w *big.Int, n int) bool {
	if n == 1 {
		return w.Cmp(big.NewInt(1)) == 0
	}
	if n&(n-1) != 0 || w.Sign() == 0 {
		return false
	}
	h := f.Exp(w, int64(n/2))
	return f.Add(h, big.NewInt(1)).Sign() == 0 // w^(n/2) = -1
}

// EvalOnPowers returns [q(s*w^0), q(s*w^1), ..., q(s*w^(n-1))] for w of order n (power of two), len(q) <= n.
// Even/odd splitting: q(x) = e(x^2) + x*o(x^2).
func (f F) EvalOnPowers(q []*big.Int, s, w *big.Int, n int) []*big.Int {
	c := make([]*big.Int, n)
	sp := big.NewInt(1)
	for i := range c {
		if i < len(q) {
			c[i] = f.Mul(q[i], sp) // q(s*X) has coefficients q[i] s^i
		} else {
			c[i] = new(big.Int)
		}
		sp = f.Mul(sp, s)
	}
	return f.dft(c, w)
}

func (f F) dft(c []*big.Int, w *big.Int) []*big.Int {
	n := len(c)
	if n == 1 {
		return []*big.Int{new(big.Int).Set(c[0])}
	}
	e, o := make([]*big.Int, n/2), make([]*big.Int, n/2)
	for i := 0; i < n/2; i++ {
		e[i], o[i] = c[2*i], c[2*i+1]
	}
	w2 := f.Mul(w, w)
	E, O := f.dft(e, w2), f.dft(o, w2)
	r := make([]*big.Int, n)
	x := big.NewInt(1)
	for i := 0; i < n/2; i++ {
		t := f.Mul(x, O[i])
		r[i] = f.Add(E[i], t)
		r[i+n/2] = f.Sub(E[i], t)
		x = f.Mul(x, w)
	}
	return r
}

// InterpolateOnPowers returns the coefficients (length n) of the unique polynomial of degree < n with
// q(s*w^i) = v[i].
func (f F) InterpolateOnPowers(v []*big.Int, s, w *big.Int) []*big.Int {
	n := len(v)
	c := make([]*big.Int, n)
	for i := range c {
		c[i] = v[i]
	}
	r := f.dft(c, f.Inv(w)) // sum_j v_j w^{-ij} = n * a_i s^i
	ninv := f.Inv(f.Int(int64(n)))
	sinv := f.Inv(s)
	sp := new(big.Int).Set(ninv)
	for i := range r {
		r[i] = f.Mul(r[i], sp)
		sp = f.Mul(sp, sinv)
	}
	return r
}

// BitRev returns the bit-reversal permutation of v (len a power of two): out[i] = v[rev(i)].
func BitRev(v []*big.Int) []*big.Int {
	n := len(v)
	r := make([]*big.Int, n)
	lg := bits.Len(uint(n)) - 1
	for i := range v {
		j := 0
		for b := 0; b < lg; b++ {
			if i>>b&1 == 1 {
				j |= 1 << (lg - 1 - b)
			}
		}
		r[i] = v[j]
	}
	return r
}

// Rev returns the lg-bit reversal of i.
func Rev(i, n int) int {
	lg := bits.Len(uint(n)) - 1
	j := 0
	for b := 0; b < lg; b++ {
		if i>>b&1 == 1 {
			j |= 1 << (lg - 1 - b)
		}
	}
	return j
}

// Trim returns the degree+1 of q (0 for the zero polynomial).
func Trim(q []*big.Int) int {
	n := len(q)
	for n > 0 && q[n-1].Sign() == 0 {
		n--
	}
	return n
}

// EqualPoly compares two coefficient vectors as polynomials (trailing zeros ignored).
func EqualPoly(a, b []*big.Int) bool {
	na, nb := Trim(a), Trim(b)
	if na != nb {
		return false
	}
	for i := 0; i < na; i++ {
		if a[i].Cmp(b[i]) != 0 {
			return false
		}
	}
	return true
}

// MulPoly returns a*b.
func (f F) MulPoly(a, b []*big.Int) []*big.Int {
	if len(a) == 0 || len(b) == 0 {
		return nil
	}
	r := make([]*big.Int, len(a)+len(b)-1)
	for i := range r {
		r[i] = new(big.Int)
	}
	for i := range a {
		for j := range b {
			r[i+j].Add(r[i+j], new(big.Int).Mul(a[i], b[j]))
		}
	}
	for i := range r {
		r[i].Mod(r[i], f.P)
	}
	return r
}

// InterpolateOnRange returns the coefficients (length n) of the polynomial of degree < n with g(i) = v[i],
// 0 <= i < n, by Newton's divided differences (requires n < P).
func (f F) InterpolateOnRange(v []*big.Int) []*big.Int {
	n := len(v)
	dd := make([]*big.Int, n)
	for i := range dd {
		dd[i] = new(big.Int).Set(v[i])
	}
	for k := 1; k < n; k++ {
		kinv := f.Inv(f.Int(int64(k)))
		for i := n - 1; i >= k; i-- {
			dd[i] = f.Mul(f.Sub(dd[i], dd[i-1]), kinv) // nodes are i-k..i, spacing k
		}
	}
	// g = dd[0] + dd[1](X-0) + dd[2](X-0)(X-1)+...  (Horner in Newton basis)
	res := []*big.Int{new(big.Int)}
	for k := n - 1; k >= 0; k-- {
		// res = res*(X-k) + dd[k]
		res = f.MulPoly(res, []*big.Int{f.Int(int64(-k)), big.NewInt(1)})
		res[0] = f.Add(res[0], dd[k])
	}
	out := make([]*big.Int, n)
	for i := range out {
		if i < len(res) {
			out[i] = res[i]
		} else {
			out[i] = new(big.Int)
		}
	}
	return out
}

// MultilinearEval evaluates the multilinear extension of the table t (len 2^n, entry index
// sum_i b_i 2^(n-i), i.e. the FIRST variable is the most significant bit) at point x (len n), directly
// from the definition: sum_b t[b] prod_i (b_i x_i + (1-b_i)(1-x_i)).
func (f F) MultilinearEval(t []*big.Int, x []*big.Int) *big.Int {
	n := len(x)
	one := big.NewInt(1)
	res := new(big.Int)
	for b := 0; b < len(t); b++ {
		term := new(big.Int).Set(t[b])
		for i := 0; i < n && term.Sign() != 0; i++ {
			if b>>(n-1-i)&1 == 1 {
				term = f.Mul(term, x[i])
			} else {
				term = f.Mul(term, f.Sub(one, x[i]))
			}
		}
		res = f.Add(res, term)
	}
	return res
}

// Eq returns prod_i (q_i h_i + (1-q_i)(1-h_i)); the empty product is 1.
func (f F) Eq(q, h []*big.Int) *big.Int {
	one := big.NewInt(1)
	res := big.NewInt(1)
	for i := range q {
		t := f.Add(f.Mul(q[i], h[i]), f.Mul(f.Sub(one, q[i]), f.Sub(one, h[i])))
		res = f.Mul(res, t)
	}
	return res
}
