// Package oted: twisted Edwards curve a x^2 + y^2 = 1 + d x^2 y^2 over a prime oracle field, affine
// unified addition law, double-and-add scalar multiplication.
package oted

import (
	"math/big"

	"verif/harness/oracle/ofield"
)

type Pt struct{ X, Y ofield.El }

type Curve struct {
	F    *ofield.Fld
	A, D ofield.El
}

func (c *Curve) Zero() Pt { return Pt{c.F.Zero(), c.F.One()} }

func (c *Curve) IsOnCurve(p Pt) bool {
	f := c.F
	x2, y2 := f.Sqr(p.X), f.Sqr(p.Y)
	l := f.Add(f.Mul(c.A, x2), y2)
	r := f.Add(f.One(), f.Mul(c.D, f.Mul(x2, y2)))
	return f.Eq(l, r)
}

func (c *Curve) Eq(p, q Pt) bool { return c.F.Eq(p.X, q.X) && c.F.Eq(p.Y, q.Y) }

func (c *Curve) Neg(p Pt) Pt { return Pt{c.F.Neg(p.X), c.F.Copy(p.Y)} }

// Add is the unified law; ok=false if a denominator vanishes (cannot happen on a complete curve).
func (c *Curve) Add(p, q Pt) (Pt, bool) {
	f := c.F
	x1y2 := f.Mul(p.X, q.Y)
	y1x2 := f.Mul(p.Y, q.X)
	y1y2 := f.Mul(p.Y, q.Y)
	x1x2 := f.Mul(p.X, q.X)
	dxy := f.Mul(c.D, f.Mul(x1x2, y1y2))
	d1 := f.Add(f.One(), dxy)
	d2 := f.Sub(f.One(), dxy)
	if f.IsZero(d1) || f.IsZero(d2) {
		return Pt{}, false
	}
	return Pt{f.Div(f.Add(x1y2, y1x2), d1), f.Div(f.Sub(y1y2, f.Mul(c.A, x1x2)), d2)}, true
}

func (c *Curve) MustAdd(p, q Pt) Pt {
	r, ok := c.Add(p, q)
	if !ok {
		panic("oted: exceptional addition")
	}
	return r
}

func (c *Curve) Double(p Pt) Pt { return c.MustAdd(p, p) }

// Mul panics on an exceptional addition (see TryMul).
func (c *Curve) Mul(p Pt, s *big.Int) Pt {
	r, ok := c.TryMul(p, s)
	if !ok {
		panic("oted: exceptional addition")
	}
	return r
}

// TryMul is double-and-add; ok=false when the unified law hits an exceptional case
// (only possible on curves that are not complete, for points outside the prime-order subgroup).
func (c *Curve) TryMul(p Pt, s *big.Int) (Pt, bool) {
	k := new(big.Int).Abs(s)
	r := c.Zero()
	var ok bool
	for i := k.BitLen() - 1; i >= 0; i-- {
		if r, ok = c.Add(r, r); !ok {
			return Pt{}, false
		}
		if k.Bit(i) == 1 {
			if r, ok = c.Add(r, p); !ok {
				return Pt{}, false
			}
		}
	}
	if s.Sign() < 0 {
		r = c.Neg(r)
	}
	return r, true
}

// LiftY returns a point with the given y when (1-y^2)/(a-d y^2) is a square.
func (c *Curve) LiftY(y ofield.El) (Pt, bool) {
	f := c.F
	y2 := f.Sqr(y)
	den := f.Sub(c.A, f.Mul(c.D, y2))
	if f.IsZero(den) {
		return Pt{}, false
	}
	x, ok := f.Sqrt(f.Div(f.Sub(f.One(), y2), den))
	if !ok {
		return Pt{}, false
	}
	return Pt{x, f.Copy(y)}, true
}

func (c *Curve) String(p Pt) string { return "(" + c.F.String(p.X) + "," + c.F.String(p.Y) + ")" }
