package ocodec

import (
	"math/big"

	"verif/harness/oracle/ocurve"
	"verif/harness/oracle/ofield"
)

// Small-degree polynomial arithmetic over an oracle field, used to construct curve points with a
// prescribed y (y = 0, y at the lexicographic boundary (p-1)/2, (p+1)/2, ...): the x-coordinates are
// the roots in F of x^3 + a x + (b - y^2), found as gcd(X^q - X, cubic) followed by equal-degree
// splitting (Cantor-Zassenhaus). Polynomials are coefficient slices, lowest degree first.

type poly []ofield.El

func pTrim(F *ofield.Fld, a poly) poly {
	for len(a) > 0 && F.IsZero(a[len(a)-1]) {
		a = a[:len(a)-1]
	}
	return a
}

func pSub(F *ofield.Fld, a, b poly) poly {
	n := len(a)
	if len(b) > n {
		n = len(b)
	}
	r := make(poly, n)
	for i := range r {
		x, y := F.Zero(), F.Zero()
		if i < len(a) {
			x = a[i]
		}
		if i < len(b) {
			y = b[i]
		}
		r[i] = F.Sub(x, y)
	}
	return pTrim(F, r)
}

func pMul(F *ofield.Fld, a, b poly) poly {
	if len(a) == 0 || len(b) == 0 {
		return nil
	}
	r := make(poly, len(a)+len(b)-1)
	for i := range r {
		r[i] = F.Zero()
	}
	for i := range a {
		for j := range b {
			r[i+j] = F.Add(r[i+j], F.Mul(a[i], b[j]))
		}
	}
	return pTrim(F, r)
}

// pRem returns a mod m (m non-zero).
func pRem(F *ofield.Fld, a, m poly) poly {
	a = pTrim(F, append(poly(nil), a...))
	m = pTrim(F, m)
	monic := F.IsOne(m[len(m)-1])
	var lead ofield.El
	if !monic {
		lead = F.Inv(m[len(m)-1])
	}
	for len(a) >= len(m) {
		c := a[len(a)-1]
		if !monic {
			c = F.Mul(c, lead)
		}
		sh := len(a) - len(m)
		for i := range m {
			a[sh+i] = F.Sub(a[sh+i], F.Mul(c, m[i]))
		}
		a = pTrim(F, a)
	}
	return a
}

func pGcd(F *ofield.Fld, a, b poly) poly {
	a, b = pTrim(F, a), pTrim(F, b)
	for len(b) > 0 {
		a, b = b, pRem(F, a, b)
	}
	if len(a) == 0 {
		return a
	}
	// monic
	iv := F.Inv(a[len(a)-1])
	r := make(poly, len(a))
	for i := range a {
		r[i] = F.Mul(a[i], iv)
	}
	return r
}

func pPowMod(F *ofield.Fld, base poly, e *big.Int, m poly) poly {
	r := poly{F.One()}
	base = pRem(F, base, m)
	for i := e.BitLen() - 1; i >= 0; i-- {
		r = pRem(F, pMul(F, r, r), m)
		if e.Bit(i) == 1 {
			r = pRem(F, pMul(F, r, base), m)
		}
	}
	return r
}

// RootsOf returns the roots in F of the polynomial m (degree <= 3, coefficients lowest first),
// deterministically (the splitting elements are 1, 2, 3, ... embedded with a varying top coefficient).
func RootsOf(F *ofield.Fld, m poly) []ofield.El {
	m = pTrim(F, m)
	if len(m) <= 1 {
		return nil
	}
	q := F.Order()
	x := poly{F.Zero(), F.One()}
	xq := pPowMod(F, x, q, m)
	g := pGcd(F, pSub(F, xq, x), m) // product of the distinct linear factors of m
	var roots []ofield.El
	half := new(big.Int).Rsh(new(big.Int).Sub(q, big.NewInt(1)), 1)
	var split func(g poly, k int64)
	split = func(g poly, k int64) {
		switch len(g) {
		case 0, 1:
			return
		case 2: // X + c0 (monic)
			roots = append(roots, F.Neg(F.Mul(g[0], F.Inv(g[1]))))
			return
		}
		for ; k < 200; k++ {
			c := F.Zero()
			c[0].SetInt64(k)
			if F.Deg() > 1 {
				c[F.Deg()-1].SetInt64(k % 5)
			}
			h := pPowMod(F, poly{c, F.One()}, half, g)
			h = pSub(F, h, poly{F.One()})
			d := pGcd(F, h, g)
			if len(d) > 1 && len(d) < len(g) {
				// g = d * (g/d): the cofactor is obtained as gcd of g with the complementary power
				h2 := pPowMod(F, poly{c, F.One()}, half, g)
				h2 = pSub(F, h2, poly{F.Neg(F.One())})
				e := pGcd(F, h2, g)
				split(d, k+1)
				split(e, k+1)
				// a root r with (r+c) = 0 is in neither part
				z := F.Neg(c)
				if F.IsZero(pEval(F, g, z)) {
					roots = append(roots, z)
				}
				return
			}
		}
	}
	split(g, 1)
	// dedupe + verify
	var out []ofield.El
	for _, r := range roots {
		if !F.IsZero(pEval(F, m, r)) {
			panic("ocodec: root self-check failed")
		}
		dup := false
		for _, o := range out {
			if F.Eq(o, r) {
				dup = true
			}
		}
		if !dup {
			out = append(out, r)
		}
	}
	return out
}

func pEval(F *ofield.Fld, m poly, x ofield.El) ofield.El {
	r := F.Zero()
	for i := len(m) - 1; i >= 0; i-- {
		r = F.Add(F.Mul(r, x), m[i])
	}
	return r
}

// PointsWithY returns the curve points whose y-coordinate is the given value (at most three).
func PointsWithY(c *ocurve.Curve, y ofield.El) []ocurve.Pt {
	F := c.F
	m := poly{F.Sub(c.B, F.Sqr(y)), F.Copy(c.A), F.Zero(), F.One()}
	var out []ocurve.Pt
	for _, x := range RootsOf(F, m) {
		p := ocurve.Pt{X: x, Y: F.Copy(y)}
		if !c.IsOnCurve(p) {
			panic("ocodec: PointsWithY self-check failed")
		}
		out = append(out, p)
	}
	return out
}
