package ocodec

import (
	"encoding/binary"
	"fmt"
	"math/big"

	"verif/harness/oracle/ocurve"
)

// Kind is a value type of the Encoder/Decoder stream.
type Kind int

const (
	KU64   Kind = iota // uint64: 8 bytes big-endian
	KU32               // uint32: 4 bytes big-endian (fixed-size integer through encoding/binary)
	KU64s              // []uint64: uint32 length, items
	KU64ss             // [][]uint64: uint32 length, then ([]uint64)*
	KFr                // scalar-field element: Bytes big-endian, canonical
	KFp                // base-field element
	KFrs               // []fr.Element / fr.Vector: uint32 length, elements
	KFps               // []fp.Element / fp.Vector
	KFrss              // [][]fr.Element: uint32 length, vectors
	KFrsss             // [][][]fr.Element: uint32 length, ([][]fr.Element)*
	KG1                // point of G1: compressed or raw according to the encoder mode; the decoder reads the flags
	KG2
	KG1s // []G1Affine: uint32 length, points
	KG2s
	KBlob // a caller type implementing io.WriterTo / io.ReaderFrom: BlobLen bytes of its own, verbatim
	NKinds
)

var kindNames = [...]string{"uint64", "uint32", "[]uint64", "[][]uint64", "fr", "fp", "[]fr", "[]fp", "[][]fr", "[][][]fr", "G1", "G2", "[]G1", "[]G2", "WriterTo/ReaderFrom"}

func (k Kind) String() string { return kindNames[k] }

// Val is a model value.
type Val struct {
	Kind Kind
	U    []uint64       // KU64, KU32 (one entry), KU64s
	UU   [][]uint64     // KU64ss
	E    []*big.Int     // KFr, KFp (one entry), KFrs, KFps
	EE   [][]*big.Int   // KFrss
	EEE  [][][]*big.Int // KFrsss
	P    []ocurve.Pt    // KG1, KG2 (one entry), KG1s, KG2s
	B    []byte         // KBlob
}

// Grammar is the stream format of one curve package.
type Grammar struct {
	FrMod, FpMod     *big.Int
	FrBytes, FpBytes int
	G1, G2           *Format
	// MaxLen bounds length prefixes in the reference decoder (resource exhaustion through a lying prefix
	// is outside the property).
	MaxLen  int
	BlobLen int
}

func u32(n int) []byte { var b [4]byte; binary.BigEndian.PutUint32(b[:], uint32(n)); return b[:] }
func u64(v uint64) []byte {
	var b [8]byte
	binary.BigEndian.PutUint64(b[:], v)
	return b[:]
}
func elBytes(v *big.Int, n int) []byte { b := make([]byte, n); v.FillBytes(b); return b }

// Encode is the reference stream encoder (raw selects the uncompressed point form).
func (g *Grammar) Encode(v Val, raw bool) []byte {
	var out []byte
	vec := func(es []*big.Int, n int) {
		out = append(out, u32(len(es))...)
		for _, e := range es {
			out = append(out, elBytes(e, n)...)
		}
	}
	switch v.Kind {
	case KU64:
		out = u64(v.U[0])
	case KU32:
		out = u32(int(v.U[0]))
	case KU64s:
		out = append(out, u32(len(v.U))...)
		for _, x := range v.U {
			out = append(out, u64(x)...)
		}
	case KU64ss:
		out = append(out, u32(len(v.UU))...)
		for _, s := range v.UU {
			out = append(out, u32(len(s))...)
			for _, x := range s {
				out = append(out, u64(x)...)
			}
		}
	case KFr:
		out = elBytes(v.E[0], g.FrBytes)
	case KFp:
		out = elBytes(v.E[0], g.FpBytes)
	case KFrs:
		vec(v.E, g.FrBytes)
	case KFps:
		vec(v.E, g.FpBytes)
	case KFrss:
		out = append(out, u32(len(v.EE))...)
		for _, s := range v.EE {
			vec(s, g.FrBytes)
		}
	case KFrsss:
		out = append(out, u32(len(v.EEE))...)
		for _, ss := range v.EEE {
			out = append(out, u32(len(ss))...)
			for _, s := range ss {
				vec(s, g.FrBytes)
			}
		}
	case KG1:
		out = g.G1.Encode(v.P[0], !raw)
	case KG2:
		out = g.G2.Encode(v.P[0], !raw)
	case KG1s, KG2s:
		f := g.G1
		if v.Kind == KG2s {
			f = g.G2
		}
		out = append(out, u32(len(v.P))...)
		for _, p := range v.P {
			out = append(out, f.Encode(p, !raw)...)
		}
	case KBlob:
		out = append([]byte(nil), v.B...)
	default:
		panic("ocodec: bad kind")
	}
	return out
}

// Parsed is the reference decision on the head of a byte stream.
type Parsed struct {
	OK    bool
	V     Val
	N     int    // bytes occupied by the item (when OK)
	Why   string // rejection reason, with the position of the offending entry
	Alias bool   // the value contains a ZCash all-zero raw infinity: the library may also reject
}

type rd struct {
	b   []byte
	off int
}

func (r *rd) take(n int) ([]byte, bool) {
	if len(r.b)-r.off < n {
		r.off = len(r.b)
		return nil, false
	}
	s := r.b[r.off : r.off+n]
	r.off += n
	return s, true
}

// Decode is the reference stream decoder for one item of kind k at the head of b.
func (g *Grammar) Decode(k Kind, b []byte, subgroup bool) Parsed {
	r := &rd{b: b}
	v := Val{Kind: k}
	fail := func(f string, a ...any) Parsed { return Parsed{Why: fmt.Sprintf(f, a...)} }
	length := func() (int, string) {
		s, ok := r.take(4)
		if !ok {
			return 0, "truncated-length"
		}
		n := int(binary.BigEndian.Uint32(s))
		if n > g.MaxLen {
			return 0, "length-over-bound"
		}
		return n, ""
	}
	elem := func(mod *big.Int, n int) (*big.Int, string) {
		s, ok := r.take(n)
		if !ok {
			return nil, "truncated-element"
		}
		x := new(big.Int).SetBytes(s)
		if x.Cmp(mod) >= 0 {
			return nil, "element-not-canonical"
		}
		return x, ""
	}
	vec := func(mod *big.Int, n int) ([]*big.Int, string) {
		l, why := length()
		if why != "" {
			return nil, why
		}
		out := make([]*big.Int, 0, l)
		for i := 0; i < l; i++ {
			x, why := elem(mod, n)
			if why != "" {
				return nil, fmt.Sprintf("%s@%d", why, i)
			}
			out = append(out, x)
		}
		return out, ""
	}
	alias := false
	point := func(f *Format) (ocurve.Pt, string) {
		vd := f.Decode(r.b[r.off:], subgroup)
		if vd.Alias {
			alias = true
		} else if !vd.OK {
			if vd.Why == "short" {
				r.off = len(r.b)
				return ocurve.Pt{}, "truncated-point"
			}
			return ocurve.Pt{}, vd.Why
		}
		r.off += vd.N
		return vd.P, ""
	}
	switch k {
	case KU64:
		s, ok := r.take(8)
		if !ok {
			return fail("truncated-uint64")
		}
		v.U = []uint64{binary.BigEndian.Uint64(s)}
	case KU32:
		s, ok := r.take(4)
		if !ok {
			return fail("truncated-uint32")
		}
		v.U = []uint64{uint64(binary.BigEndian.Uint32(s))}
	case KU64s, KU64ss:
		rows := 1
		if k == KU64ss {
			n, why := length()
			if why != "" {
				return fail("%s", why)
			}
			rows = n
			v.UU = make([][]uint64, 0, n)
		}
		for i := 0; i < rows; i++ {
			n, why := length()
			if why != "" {
				return fail("%s@%d", why, i)
			}
			row := make([]uint64, 0, n)
			for j := 0; j < n; j++ {
				s, ok := r.take(8)
				if !ok {
					return fail("truncated-uint64@%d,%d", i, j)
				}
				row = append(row, binary.BigEndian.Uint64(s))
			}
			if k == KU64ss {
				v.UU = append(v.UU, row)
			} else {
				v.U = row
			}
		}
	case KFr, KFp:
		mod, n := g.FrMod, g.FrBytes
		if k == KFp {
			mod, n = g.FpMod, g.FpBytes
		}
		x, why := elem(mod, n)
		if why != "" {
			return fail("%s", why)
		}
		v.E = []*big.Int{x}
	case KFrs, KFps:
		mod, n := g.FrMod, g.FrBytes
		if k == KFps {
			mod, n = g.FpMod, g.FpBytes
		}
		es, why := vec(mod, n)
		if why != "" {
			return fail("%s", why)
		}
		v.E = es
	case KFrss:
		n, why := length()
		if why != "" {
			return fail("%s", why)
		}
		v.EE = make([][]*big.Int, 0, n)
		for i := 0; i < n; i++ {
			es, why := vec(g.FrMod, g.FrBytes)
			if why != "" {
				return fail("%s in vector %d", why, i)
			}
			v.EE = append(v.EE, es)
		}
	case KFrsss:
		n, why := length()
		if why != "" {
			return fail("%s", why)
		}
		v.EEE = make([][][]*big.Int, 0, n)
		for i := 0; i < n; i++ {
			m, why := length()
			if why != "" {
				return fail("%s in collection %d", why, i)
			}
			ss := make([][]*big.Int, 0, m)
			for j := 0; j < m; j++ {
				es, why := vec(g.FrMod, g.FrBytes)
				if why != "" {
					return fail("%s in vector %d,%d", why, i, j)
				}
				ss = append(ss, es)
			}
			v.EEE = append(v.EEE, ss)
		}
	case KG1, KG2:
		f := g.G1
		if k == KG2 {
			f = g.G2
		}
		p, why := point(f)
		if why != "" {
			return fail("%s", why)
		}
		v.P = []ocurve.Pt{p}
	case KG1s, KG2s:
		f := g.G1
		if k == KG2s {
			f = g.G2
		}
		n, why := length()
		if why != "" {
			return fail("%s", why)
		}
		v.P = make([]ocurve.Pt, 0, n)
		for i := 0; i < n; i++ {
			p, why := point(f)
			if why != "" {
				return fail("%s@%d", why, i)
			}
			v.P = append(v.P, p)
		}
	case KBlob:
		s, ok := r.take(g.BlobLen)
		if !ok {
			return fail("truncated-blob")
		}
		v.B = append([]byte(nil), s...)
	default:
		panic("ocodec: bad kind")
	}
	return Parsed{OK: true, V: v, N: r.off, Alias: alias}
}

// Equal compares two model values (points through the curve equality of the matching format).
func (g *Grammar) Equal(a, b Val) bool {
	if a.Kind != b.Kind {
		return false
	}
	eqU := func(x, y []uint64) bool {
		if len(x) != len(y) {
			return false
		}
		for i := range x {
			if x[i] != y[i] {
				return false
			}
		}
		return true
	}
	eqE := func(x, y []*big.Int) bool {
		if len(x) != len(y) {
			return false
		}
		for i := range x {
			if x[i].Cmp(y[i]) != 0 {
				return false
			}
		}
		return true
	}
	if string(a.B) != string(b.B) {
		return false
	}
	if !eqU(a.U, b.U) || !eqE(a.E, b.E) || len(a.UU) != len(b.UU) || len(a.EE) != len(b.EE) || len(a.EEE) != len(b.EEE) || len(a.P) != len(b.P) {
		return false
	}
	for i := range a.UU {
		if !eqU(a.UU[i], b.UU[i]) {
			return false
		}
	}
	for i := range a.EE {
		if !eqE(a.EE[i], b.EE[i]) {
			return false
		}
	}
	for i := range a.EEE {
		if len(a.EEE[i]) != len(b.EEE[i]) {
			return false
		}
		for j := range a.EEE[i] {
			if !eqE(a.EEE[i][j], b.EEE[i][j]) {
				return false
			}
		}
	}
	if len(a.P) > 0 {
		f := g.G1
		if a.Kind == KG2 || a.Kind == KG2s {
			f = g.G2
		}
		for i := range a.P {
			if !f.C.Eq(a.P[i], b.P[i]) {
				return false
			}
		}
	}
	return true
}

// Describe renders a value compactly for witnesses.
func (g *Grammar) Describe(v Val) string {
	s := fmt.Sprintf("%v", v.Kind)
	switch {
	case len(v.P) > 0:
		f := g.G1
		if v.Kind == KG2 || v.Kind == KG2s {
			f = g.G2
		}
		s += "{"
		for i, p := range v.P {
			if i >= 3 {
				s += fmt.Sprintf("…(%d points)", len(v.P))
				break
			}
			s += f.C.String(p) + " "
		}
		s += "}"
	case v.Kind == KBlob:
		s += fmt.Sprintf("%x", v.B)
	case v.U != nil:
		if len(v.U) > 6 {
			s += fmt.Sprintf("%v…(%d)", v.U[:6], len(v.U))
		} else {
			s += fmt.Sprintf("%v", v.U)
		}
	case v.UU != nil:
		s += fmt.Sprintf("(%d rows)", len(v.UU))
	case v.E != nil:
		if len(v.E) > 3 {
			s += fmt.Sprintf("%v…(%d)", v.E[:3], len(v.E))
		} else {
			s += fmt.Sprintf("%v", v.E)
		}
	case v.EE != nil:
		s += fmt.Sprintf("(%d vectors)", len(v.EE))
	case v.EEE != nil:
		s += fmt.Sprintf("(%d collections)", len(v.EEE))
	}
	return s
}
