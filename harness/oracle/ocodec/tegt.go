package ocodec

import (
	"math/big"

	"verif/harness/oracle/ofield"
	"verif/harness/oracle/oted"
)

// TE is the compressed twisted-Edwards point format of RFC 8032 section 3.1 (referenced by the doc comment of
// PointAffine.Bytes): the little-endian encoding of y on Size bytes whose most significant bit carries the
// "sign" of x, x being negative when its encoding is lexicographically larger than that of -x
// (x > (q-1)/2). Decoding (RFC 8032 section 5.1.3, generalised to a x^2 + y^2 = 1 + d x^2 y^2): y must be
// < q, x^2 = (1-y^2)/(a-d y^2) must be a square, and x = 0 with the sign bit set is rejected.
type TE struct {
	C    *oted.Curve
	Size int
}

func (t *TE) negative(x ofield.El) bool {
	h := new(big.Int).Rsh(t.C.F.P, 1) // (q-1)/2
	return x[0].Cmp(h) > 0
}

func (t *TE) Encode(p oted.Pt) []byte {
	be := make([]byte, t.Size)
	p.Y[0].FillBytes(be)
	out := make([]byte, t.Size)
	for i := range be {
		out[t.Size-1-i] = be[i]
	}
	if t.negative(p.X) {
		out[t.Size-1] |= 0x80
	}
	return out
}

type TEVerdict struct {
	OK  bool
	P   oted.Pt
	Why string
}

// Decode looks at the first Size bytes of b.
func (t *TE) Decode(b []byte) TEVerdict {
	if len(b) < t.Size {
		return TEVerdict{Why: "short"}
	}
	F := t.C.F
	be := make([]byte, t.Size)
	for i := 0; i < t.Size; i++ {
		be[t.Size-1-i] = b[i]
	}
	sign := be[0]&0x80 != 0
	be[0] &= 0x7f
	y := new(big.Int).SetBytes(be)
	if y.Cmp(F.P) >= 0 {
		return TEVerdict{Why: "y-not-canonical"}
	}
	p, ok := t.C.LiftY(ofield.El{y})
	if !ok {
		return TEVerdict{Why: "no-square-root"}
	}
	if F.IsZero(p.X) && sign {
		return TEVerdict{Why: "x=0-with-sign-bit"}
	}
	if t.negative(p.X) != sign {
		p.X = F.Neg(p.X)
	}
	if !t.C.IsOnCurve(p) {
		panic("ocodec: TE decode self-check failed")
	}
	return TEVerdict{OK: true, P: p}
}

// GT is the layout of a target-group (full extension field) element: the flattened tower coefficients,
// each big-endian on FpBytes bytes, from the last coefficient to the first when Reversed
// ("z.C1.B2.A1 | z.C1.B2.A0 | z.C1.B1.A1 | ..." of E12 / E6) or from the first to the last (E24).
type GT struct {
	P        *big.Int
	Deg      int
	FpBytes  int
	Reversed bool
}

func (g *GT) Size() int { return g.Deg * g.FpBytes }

func (g *GT) Encode(e ofield.El) []byte {
	out := make([]byte, 0, g.Size())
	for i := 0; i < g.Deg; i++ {
		j := i
		if g.Reversed {
			j = g.Deg - 1 - i
		}
		out = append(out, elBytes(e[j], g.FpBytes)...)
	}
	return out
}

// Decode: ok=false with a reason when the length is wrong or a coefficient is not canonical.
func (g *GT) Decode(b []byte) (ofield.El, string) {
	if len(b) != g.Size() {
		return nil, "bad-length"
	}
	e := make(ofield.El, g.Deg)
	for i := 0; i < g.Deg; i++ {
		j := i
		if g.Reversed {
			j = g.Deg - 1 - i
		}
		v := new(big.Int).SetBytes(b[i*g.FpBytes : (i+1)*g.FpBytes])
		if v.Cmp(g.P) >= 0 {
			return nil, "coefficient-not-canonical"
		}
		e[j] = v
	}
	return e, ""
}
