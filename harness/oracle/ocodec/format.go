// Package ocodec is the reference model of the documented binary formats of gnark-crypto's curve
// packages: the point encodings (flag table of ecc/<curve>/marshal.go doc comments: ZCash/IETF style
// 3 flag bits, the 2-bit variant of bn254/grumpkin/stark-curve, the flag-less X|Y form of secp256k1),
// the length-prefixed stream grammar of Encoder/Decoder, the RFC 8032 section 3.1 twisted-Edwards
// compression and the GT coefficient layout. Everything is computed on math/big through ofield/ocurve;
// nothing here calls the library.
package ocodec

import (
	"bytes"
	"math/big"
	"sync"

	"verif/harness/oracle/ocurve"
	"verif/harness/oracle/ofield"
)

// Family is the flag convention of a point format.
type Family int

const (
	// ZCash: three most significant bits of byte 0: compressed | infinity | lexicographically largest y.
	// valid patterns 000 (raw) 010 (raw infinity) 100 101 (compressed, smallest/largest y) 110 (compressed infinity).
	ZCash Family = iota
	// TwoBit: two most significant bits: 00 raw (raw infinity = all zero), 01 compressed infinity,
	// 10 compressed smallest y, 11 compressed largest y.
	TwoBit
	// NoFlags: X | Y, nothing else (secp256k1: the modulus fills the 32 bytes).
	NoFlags
)

func (f Family) String() string { return [...]string{"zcash3", "twobit", "noflags"}[f] }

// Mask returns the flag mask of byte 0.
func (f Family) Mask() byte {
	switch f {
	case ZCash:
		return 0xE0
	case TwoBit:
		return 0xC0
	}
	return 0
}

// Flags describes the meaning of a flag pattern.
type Flags struct {
	Valid, Compressed, Infinity, Largest bool
}

// Parse decodes the flag bits of the first byte.
func (f Family) Parse(b0 byte) Flags {
	switch f {
	case ZCash:
		c, i, s := b0&0x80 != 0, b0&0x40 != 0, b0&0x20 != 0
		// the sort bit is only meaningful for a compressed, finite point
		return Flags{Valid: !(s && (!c || i)), Compressed: c, Infinity: i, Largest: s}
	case TwoBit:
		switch b0 >> 6 {
		case 0:
			return Flags{Valid: true}
		case 1:
			return Flags{Valid: true, Compressed: true, Infinity: true}
		case 2:
			return Flags{Valid: true, Compressed: true}
		default:
			return Flags{Valid: true, Compressed: true, Largest: true}
		}
	}
	return Flags{Valid: true}
}

// Patterns lists every value of the flag bits (already shifted into byte 0).
func (f Family) Patterns() []byte {
	switch f {
	case ZCash:
		return []byte{0x00, 0x20, 0x40, 0x60, 0x80, 0xA0, 0xC0, 0xE0}
	case TwoBit:
		return []byte{0x00, 0x40, 0x80, 0xC0}
	}
	return []byte{0x00}
}

// Format is the point format of one group.
type Format struct {
	Name    string
	C       *ocurve.Curve
	R       *big.Int // order of the prime-order subgroup
	FpBytes int
	Fam     Family

	mu    sync.Mutex
	sub   map[string]bool
	roots map[string]rootEntry
	dec   map[string]Verdict
}

type rootEntry struct {
	y  ofield.El
	ok bool
}

func NewFormat(name string, c *ocurve.Curve, r *big.Int, fpBytes int, fam Family) *Format {
	return &Format{Name: name, C: c, R: r, FpBytes: fpBytes, Fam: fam, sub: map[string]bool{}, roots: map[string]rootEntry{}, dec: map[string]Verdict{}}
}

// SizeC / SizeU: sizes of the compressed (one coordinate) and raw (two coordinates) forms.
func (f *Format) SizeC() int { return f.C.F.Deg() * f.FpBytes }
func (f *Format) SizeU() int { return 2 * f.SizeC() }

// Ser writes a field element: coefficients from the highest tower coefficient down to the constant one
// ("X.A1 | X.A0", "X.B1.A1 | X.B1.A0 | X.B0.A1 | X.B0.A0"), each big-endian on FpBytes bytes.
func (f *Format) Ser(e ofield.El) []byte {
	out := make([]byte, 0, len(e)*f.FpBytes)
	for i := len(e) - 1; i >= 0; i-- {
		chunk := make([]byte, f.FpBytes)
		e[i].FillBytes(chunk)
		out = append(out, chunk...)
	}
	return out
}

// parse reads one field element; ok=false when a coefficient is not in [0,p).
func (f *Format) parse(b []byte) (ofield.El, bool) {
	d := f.C.F.Deg()
	e := make(ofield.El, d)
	for i := 0; i < d; i++ {
		v := new(big.Int).SetBytes(b[i*f.FpBytes : (i+1)*f.FpBytes])
		if v.Cmp(f.C.F.P) >= 0 {
			return nil, false
		}
		e[d-1-i] = v
	}
	return e, true
}

// Largest reports whether y is strictly lexicographically larger than -y, comparing the serialised
// coefficient strings (highest coefficient first), i.e. the ZCash rule.
func (f *Format) Largest(y ofield.El) bool {
	return bytes.Compare(f.Ser(y), f.Ser(f.C.F.Neg(y))) > 0
}

// InSubgroup: [r]P = O on the oracle curve (memoised).
func (f *Format) InSubgroup(p ocurve.Pt) bool {
	if p.Inf {
		return true
	}
	k := string(f.Ser(p.X)) + string(f.Ser(p.Y))
	f.mu.Lock()
	v, ok := f.sub[k]
	f.mu.Unlock()
	if ok {
		return v
	}
	v = f.C.Mul(p, f.R).Inf
	f.mu.Lock()
	f.sub[k] = v
	f.mu.Unlock()
	return v
}

// MarkSubgroup records a point known to be in the subgroup by construction ([k]G).
func (f *Format) MarkSubgroup(p ocurve.Pt) {
	if p.Inf {
		return
	}
	k := string(f.Ser(p.X)) + string(f.Ser(p.Y))
	f.mu.Lock()
	f.sub[k] = true
	f.mu.Unlock()
}

// Learn records a curve point constructed by the caller: its y is a square root of x^3+ax+b (checked), so the
// reference decoder need not recompute it; sub=true additionally records subgroup membership (for [k]G).
func (f *Format) Learn(p ocurve.Pt, sub bool) {
	if p.Inf {
		return
	}
	if !f.C.IsOnCurve(p) {
		panic("ocodec: Learn on a point that is not on the curve")
	}
	k := string(f.Ser(p.X))
	f.mu.Lock()
	f.roots[k] = rootEntry{f.C.F.Copy(p.Y), true}
	f.mu.Unlock()
	if sub {
		f.MarkSubgroup(p)
		f.MarkSubgroup(f.C.Neg(p))
	}
}

// Root returns a square root of x^3+ax+b (memoised), ok=false when none exists.
func (f *Format) Root(x ofield.El) (ofield.El, bool) {
	k := string(f.Ser(x))
	f.mu.Lock()
	r, ok := f.roots[k]
	f.mu.Unlock()
	if ok {
		return r.y, r.ok
	}
	p, okk := f.C.LiftX(x)
	r = rootEntry{p.Y, okk}
	f.mu.Lock()
	f.roots[k] = r
	f.mu.Unlock()
	return r.y, r.ok
}

// Encode is the reference encoder.
func (f *Format) Encode(p ocurve.Pt, compressed bool) []byte {
	F := f.C.F
	if f.Fam == NoFlags {
		out := make([]byte, f.SizeU())
		if !p.Inf {
			copy(out, f.Ser(p.X))
			copy(out[f.SizeC():], f.Ser(p.Y))
		}
		return out
	}
	if compressed {
		out := make([]byte, f.SizeC())
		switch {
		case p.Inf && f.Fam == ZCash:
			out[0] = 0xC0
		case p.Inf:
			out[0] = 0x40
		default:
			copy(out, f.Ser(p.X))
			l := f.Largest(p.Y)
			switch {
			case f.Fam == ZCash && l:
				out[0] |= 0xA0
			case f.Fam == ZCash:
				out[0] |= 0x80
			case l:
				out[0] |= 0xC0
			default:
				out[0] |= 0x80
			}
		}
		return out
	}
	out := make([]byte, f.SizeU())
	if p.Inf {
		if f.Fam == ZCash {
			out[0] = 0x40
		}
		return out
	}
	_ = F
	copy(out, f.Ser(p.X))
	copy(out[f.SizeC():], f.Ser(p.Y))
	return out
}

// Verdict is the reference decision on a byte string.
type Verdict struct {
	OK    bool
	Alias bool // the all-zero raw string of the ZCash family: may be accepted as infinity or rejected
	P     ocurve.Pt
	N     int    // bytes the encoding occupies (when OK or Alias)
	Why   string // rejection reason
	Comp  bool   // the string is in compressed form (valid when OK)
}

// Decode is the reference decoder: b may be longer than the encoding (trailing bytes are not looked at).
func (f *Format) Decode(b []byte, subgroup bool) Verdict {
	sc, su := f.SizeC(), f.SizeU()
	if len(b) < sc {
		return Verdict{Why: "short"}
	}
	fl := f.Fam.Parse(b[0])
	if f.Fam == NoFlags {
		fl = Flags{Valid: true}
	}
	n := sc
	if !fl.Compressed {
		n = su
	}
	if !fl.Valid {
		return Verdict{Why: "invalid-flags"}
	}
	if len(b) < n {
		return Verdict{Why: "short"}
	}
	key := string(b[:n])
	if subgroup {
		key += "S"
	}
	f.mu.Lock()
	v, ok := f.dec[key]
	f.mu.Unlock()
	if ok {
		return v
	}
	v = f.decode(b[:n], fl, subgroup)
	f.mu.Lock()
	f.dec[key] = v
	f.mu.Unlock()
	return v
}

func allZero(b []byte) bool {
	for _, x := range b {
		if x != 0 {
			return false
		}
	}
	return true
}

func (f *Format) decode(b []byte, fl Flags, subgroup bool) Verdict {
	F := f.C.F
	sc := f.SizeC()
	n := len(b)
	pl := append([]byte(nil), b...)
	pl[0] &^= f.Fam.Mask()
	if fl.Infinity {
		if !allZero(pl) {
			return Verdict{Why: "infinity-with-payload"}
		}
		return Verdict{OK: true, P: ocurve.Pt{Inf: true}, N: n, Comp: fl.Compressed}
	}
	x, ok := f.parse(pl[:sc])
	if !ok {
		return Verdict{Why: "x-not-canonical"}
	}
	var p ocurve.Pt
	if !fl.Compressed {
		y, ok := f.parse(pl[sc:])
		if !ok {
			return Verdict{Why: "y-not-canonical"}
		}
		if F.IsZero(x) && F.IsZero(y) {
			if f.Fam == ZCash {
				return Verdict{Alias: true, P: ocurve.Pt{Inf: true}, N: n}
			}
			return Verdict{OK: true, P: ocurve.Pt{Inf: true}, N: n}
		}
		p = ocurve.Pt{X: x, Y: y}
		if !f.C.IsOnCurve(p) {
			return Verdict{Why: "not-on-curve"}
		}
	} else {
		y, ok := f.Root(x)
		if !ok {
			return Verdict{Why: "no-square-root"}
		}
		if F.IsZero(y) && fl.Largest {
			return Verdict{Why: "largest-flag-with-y=0"}
		}
		if f.Largest(y) != fl.Largest {
			y = F.Neg(y)
		}
		p = ocurve.Pt{X: x, Y: y}
	}
	if subgroup && !f.InSubgroup(p) {
		why := "not-in-subgroup"
		switch d := f.C.Double(p); {
		case d.Inf:
			why += "(order-2)"
		case f.C.Add(d, p).Inf:
			why += "(order-3)"
		}
		return Verdict{Why: why}
	}
	return Verdict{OK: true, P: p, N: n, Comp: fl.Compressed}
}
