// Package ofield is the reference model for prime fields and binomial towers K[X]/(X^n - beta):
// schoolbook products on math/big coefficients, inversion checked by multiplication,
// Frobenius by exponentiation. Independent of Montgomery form, Karatsuba, sparse tricks.
package ofield

import (
	"fmt"
	"math/big"
)

// El is an element: flattened coefficient vector (length Fld.Deg()), each in [0,p).
type El []*big.Int

// Fld is a prime field (Base == nil) or Base[X]/(X^N - Beta).
type Fld struct {
	P    *big.Int
	Base *Fld
	N    int
	Beta El
	deg  int
	ord  *big.Int // p^deg
}

func Prime(p *big.Int) *Fld {
	return &Fld{P: new(big.Int).Set(p), deg: 1, ord: new(big.Int).Set(p)}
}

// Ext returns f[X]/(X^n - beta), beta in f.
func (f *Fld) Ext(n int, beta El) *Fld {
	if len(beta) != f.deg {
		panic("ofield: beta not in base")
	}
	return &Fld{P: f.P, Base: f, N: n, Beta: beta, deg: f.deg * n, ord: new(big.Int).Exp(f.P, big.NewInt(int64(f.deg*n)), nil)}
}

func (f *Fld) Deg() int        { return f.deg }
func (f *Fld) Order() *big.Int { return new(big.Int).Set(f.ord) }

func (f *Fld) Zero() El {
	e := make(El, f.deg)
	for i := range e {
		e[i] = new(big.Int)
	}
	return e
}
func (f *Fld) One() El { e := f.Zero(); e[0].SetInt64(1); return e }

// FromInt embeds an integer (reduced mod p) into the field.
func (f *Fld) FromInt(v *big.Int) El {
	e := f.Zero()
	e[0].Mod(v, f.P)
	return e
}
func (f *Fld) FromInt64(v int64) El { return f.FromInt(big.NewInt(v)) }

// FromInts builds an element from its flattened coefficients.
func (f *Fld) FromInts(vs ...*big.Int) El {
	if len(vs) != f.deg {
		panic(fmt.Sprintf("ofield: need %d coefficients, got %d", f.deg, len(vs)))
	}
	e := make(El, f.deg)
	for i := range e {
		e[i] = new(big.Int).Mod(vs[i], f.P)
	}
	return e
}

func (f *Fld) Copy(a El) El {
	e := make(El, len(a))
	for i := range a {
		e[i] = new(big.Int).Set(a[i])
	}
	return e
}

func (f *Fld) Eq(a, b El) bool {
	for i := range a {
		if a[i].Cmp(b[i]) != 0 {
			return false
		}
	}
	return true
}
func (f *Fld) IsZero(a El) bool {
	for i := range a {
		if a[i].Sign() != 0 {
			return false
		}
	}
	return true
}
func (f *Fld) IsOne(a El) bool { return f.Eq(a, f.One()) }

func (f *Fld) Add(a, b El) El {
	e := make(El, f.deg)
	for i := range e {
		e[i] = new(big.Int).Add(a[i], b[i])
		if e[i].Cmp(f.P) >= 0 {
			e[i].Sub(e[i], f.P)
		}
	}
	return e
}
func (f *Fld) Sub(a, b El) El {
	e := make(El, f.deg)
	for i := range e {
		e[i] = new(big.Int).Sub(a[i], b[i])
		if e[i].Sign() < 0 {
			e[i].Add(e[i], f.P)
		}
	}
	return e
}
func (f *Fld) Neg(a El) El { return f.Sub(f.Zero(), a) }

func (f *Fld) Mul(a, b El) El {
	if f.Base == nil {
		v := new(big.Int).Mul(a[0], b[0])
		return El{v.Mod(v, f.P)}
	}
	bd := f.Base.deg
	res := make([]El, f.N)
	for i := range res {
		res[i] = f.Base.Zero()
	}
	for i := 0; i < f.N; i++ {
		ai := a[i*bd : (i+1)*bd]
		if f.Base.IsZero(ai) {
			continue
		}
		for j := 0; j < f.N; j++ {
			bj := b[j*bd : (j+1)*bd]
			if f.Base.IsZero(bj) {
				continue
			}
			p := f.Base.Mul(ai, bj)
			k := i + j
			if k >= f.N {
				k -= f.N
				p = f.Base.Mul(p, f.Beta)
			}
			res[k] = f.Base.Add(res[k], p)
		}
	}
	e := make(El, 0, f.deg)
	for i := range res {
		e = append(e, res[i]...)
	}
	return e
}
func (f *Fld) Sqr(a El) El { return f.Mul(a, a) }

// MulInt multiplies by a (signed) integer.
func (f *Fld) MulInt(a El, k int64) El {
	e := make(El, f.deg)
	kk := big.NewInt(k)
	for i := range e {
		e[i] = new(big.Int).Mul(a[i], kk)
		e[i].Mod(e[i], f.P)
	}
	return e
}

// Exp computes a^k for any integer k (negative: inverse power; 0^negative = 0 by the library's convention inv(0)=0).
func (f *Fld) Exp(a El, k *big.Int) El {
	if k.Sign() < 0 {
		return f.Exp(f.Inv(a), new(big.Int).Neg(k))
	}
	if f.Base == nil {
		return El{new(big.Int).Exp(a[0], k, f.P)}
	}
	r := f.One()
	for i := k.BitLen() - 1; i >= 0; i-- {
		r = f.Sqr(r)
		if k.Bit(i) == 1 {
			r = f.Mul(r, a)
		}
	}
	return r
}

// Inv returns a^-1 (0 for 0). The result is verified by multiplication.
func (f *Fld) Inv(a El) El {
	if f.IsZero(a) {
		return f.Zero()
	}
	var r El
	if f.Base == nil {
		r = El{new(big.Int).ModInverse(a[0], f.P)}
	} else {
		// a^-1 = a^(q-2) would be slow; use norm down to the base field via the product of conjugates:
		// N(a) = prod_{i<N} sigma^i(a) where sigma = Frobenius over Base (x -> x^|Base|). Instead of Frobenius
		// we use linear algebra over Base: solve a*x = 1 (N unknowns in Base) by Gaussian elimination.
		n := f.N
		bd := f.Base.deg
		B := f.Base
		// matrix M (n x n over Base): column j = coefficients of a * X^j
		M := make([][]El, n)
		for i := range M {
			M[i] = make([]El, n+1)
		}
		for j := 0; j < n; j++ {
			xj := f.Zero()
			xj[j*bd].SetInt64(1)
			col := f.Mul(a, xj)
			for i := 0; i < n; i++ {
				M[i][j] = El(col[i*bd : (i+1)*bd])
			}
		}
		for i := 0; i < n; i++ {
			M[i][n] = B.Zero()
		}
		M[0][n] = B.One()
		for c := 0; c < n; c++ {
			piv := -1
			for r0 := c; r0 < n; r0++ {
				if !B.IsZero(M[r0][c]) {
					piv = r0
					break
				}
			}
			if piv < 0 {
				panic("ofield: singular (not a field?)")
			}
			M[c], M[piv] = M[piv], M[c]
			iv := B.Inv(M[c][c])
			for k := c; k <= n; k++ {
				M[c][k] = B.Mul(M[c][k], iv)
			}
			for r0 := 0; r0 < n; r0++ {
				if r0 != c && !B.IsZero(M[r0][c]) {
					fct := M[r0][c]
					for k := c; k <= n; k++ {
						M[r0][k] = B.Sub(M[r0][k], B.Mul(fct, M[c][k]))
					}
				}
			}
		}
		r = make(El, 0, f.deg)
		for i := 0; i < n; i++ {
			r = append(r, B.Copy(M[i][n])...)
		}
	}
	if !f.IsOne(f.Mul(a, r)) {
		panic("ofield: inverse self-check failed")
	}
	return r
}

func (f *Fld) Div(a, b El) El { return f.Mul(a, f.Inv(b)) }

// Frobenius returns a^(p^k).
func (f *Fld) Frobenius(a El, k int) El {
	e := new(big.Int).Exp(f.P, big.NewInt(int64(k)), nil)
	return f.Exp(a, e)
}

// Conj returns the conjugate over Base for a quadratic extension.
func (f *Fld) Conj(a El) El {
	if f.N != 2 {
		panic("Conj on non-quadratic extension")
	}
	bd := f.Base.deg
	e := f.Copy(a)
	neg := f.Base.Neg(El(a[bd:]))
	copy(e[bd:], neg)
	return e
}

// Legendre returns 1 if a is a non-zero square, -1 if a non-square, 0 for 0.
func (f *Fld) Legendre(a El) int {
	if f.IsZero(a) {
		return 0
	}
	if f.Base == nil {
		return big.Jacobi(a[0], f.P)
	}
	e := new(big.Int).Rsh(new(big.Int).Sub(f.ord, big.NewInt(1)), 1)
	if f.IsOne(f.Exp(a, e)) {
		return 1
	}
	return -1
}

// Sqrt returns a square root of a when one exists (Tonelli-Shanks over the whole field).
func (f *Fld) Sqrt(a El) (El, bool) {
	if f.IsZero(a) {
		return f.Zero(), true
	}
	if f.Base == nil {
		r := new(big.Int).ModSqrt(a[0], f.P)
		if r == nil {
			return nil, false
		}
		return El{r}, true
	}
	if f.Legendre(a) != 1 {
		return nil, false
	}
	qm1 := new(big.Int).Sub(f.ord, big.NewInt(1))
	s := 0
	t := new(big.Int).Set(qm1)
	for t.Bit(0) == 0 {
		t.Rsh(t, 1)
		s++
	}
	// non-residue: deterministic search
	var z El
	for k := int64(1); ; k++ {
		c := f.Zero()
		c[0].SetInt64(k)
		c[f.deg-1].SetInt64(1 + k%3)
		if f.Legendre(c) == -1 {
			z = c
			break
		}
	}
	m := s
	c := f.Exp(z, t)
	tt := f.Exp(a, t)
	r := f.Exp(a, new(big.Int).Rsh(new(big.Int).Add(t, big.NewInt(1)), 1))
	for !f.IsOne(tt) {
		i := 0
		x := f.Copy(tt)
		for !f.IsOne(x) {
			x = f.Sqr(x)
			i++
		}
		b := c
		for j := 0; j < m-i-1; j++ {
			b = f.Sqr(b)
		}
		m = i
		c = f.Sqr(b)
		tt = f.Mul(tt, c)
		r = f.Mul(r, b)
	}
	if !f.Eq(f.Sqr(r), a) {
		panic("ofield: sqrt self-check failed")
	}
	return r, true
}

func (f *Fld) String(a El) string {
	s := "["
	for i, c := range a {
		if i > 0 {
			s += ","
		}
		s += c.Text(16)
	}
	return s + "]"
}

// Embed lifts an element of a (direct or indirect) subfield of the tower into f (as the constant coefficient).
func (f *Fld) Embed(a El) El {
	e := f.Zero()
	for i := range a {
		e[i].Set(a[i])
	}
	return e
}
