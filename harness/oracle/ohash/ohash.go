// Package ohash holds specification-level models (math/big, explicit matrices, schoolbook
// polynomial products) of the algebraic hashes of gnark-crypto: MiMC in Miyaguchi-Preneel
// mode, the Poseidon2 permutation / 2-to-1 compression / Merkle-Damgard chaining, and the
// ring-SIS hash. Nothing here calls the library. Trusted: math/big, golang.org/x/crypto
// (legacy Keccak-256 and BLAKE2b-256, used only to expand the documented seeds).
package ohash

import (
	"encoding/binary"
	"fmt"
	"math/big"
	"math/bits"
	"strings"

	"golang.org/x/crypto/blake2b"
	"golang.org/x/crypto/sha3"
)

func keccak(b []byte) []byte {
	h := sha3.NewLegacyKeccak256()
	h.Write(b)
	return h.Sum(nil)
}

// SeedChain returns the documented constant stream of a seed: r0 = K(seed), r_{i+1} = K(r_i);
// the i-th constant (i >= 1) is r_i read as a big-endian integer (reduced by the caller).
func SeedChain(seed string) func() *big.Int {
	cur := keccak([]byte(seed))
	return func() *big.Int {
		cur = keccak(cur)
		return new(big.Int).SetBytes(cur)
	}
}

// ---------------------------------------------------------------- MiMC

// MiMC is the block cipher x -> E_k(x) with r rounds x <- (x + k + c_i)^d and a final key
// addition, used in Miyaguchi-Preneel mode h' = E_h(m) + h + m over F_q.
type MiMC struct {
	Q      *big.Int
	D      int
	Rounds int
	C      []*big.Int
}

func NewMiMC(q *big.Int, d, rounds int, seed string) *MiMC {
	m := &MiMC{Q: q, D: d, Rounds: rounds}
	next := SeedChain(seed)
	for i := 0; i < rounds; i++ {
		c := next()
		m.C = append(m.C, c.Mod(c, q))
	}
	return m
}

// powSmall sets v to v^d mod q by plain square-and-multiply (d small).
func powSmall(v *big.Int, d int, q *big.Int) {
	base := new(big.Int).Mod(v, q)
	acc := big.NewInt(1)
	for e := d; e > 0; e >>= 1 {
		if e&1 == 1 {
			acc.Mul(acc, base)
			acc.Mod(acc, q)
		}
		base.Mul(base, base)
		base.Mod(base, q)
	}
	v.Set(acc)
}

func (m *MiMC) Encrypt(k, x *big.Int) *big.Int {
	v := new(big.Int).Set(x)
	for i := 0; i < m.Rounds; i++ {
		v.Add(v, k)
		v.Add(v, m.C[i])
		powSmall(v, m.D, m.Q)
	}
	v.Add(v, k)
	return v.Mod(v, m.Q)
}

// Absorb is one Miyaguchi-Preneel step.
func (m *MiMC) Absorb(h, x *big.Int) *big.Int {
	r := m.Encrypt(h, x)
	r.Add(r, h)
	r.Add(r, x)
	return r.Mod(r, m.Q)
}

// ---------------------------------------------------------------- Poseidon2

// P2 is the Poseidon2 permutation of eprint 2023/323: x <- M_E x; RF/2 full rounds
// (x <- M_E S(x + c)); RP partial rounds (x0 <- S(x0 + c); x <- M_I x); RF/2 full rounds.
type P2 struct {
	Q          *big.Int
	D, T       int
	RF, RP     int
	ME, MI     [][]*big.Int
	RC         [][]*big.Int // RF+RP rows; full rounds have T entries, partial rounds 1
	SeedString string
}

// NewP2 derives the round constants from seed (SeedChain order: round by round, T constants per
// full round, one per partial round).
func NewP2(q *big.Int, d, t, rf, rp int, seed string, me, mi [][]*big.Int) *P2 {
	p := &P2{Q: q, D: d, T: t, RF: rf, RP: rp, ME: me, MI: mi, SeedString: seed}
	next := SeedChain(seed)
	for r := 0; r < rf+rp; r++ {
		n := t
		if r >= rf/2 && r < rf/2+rp {
			n = 1
		}
		row := make([]*big.Int, n)
		for j := range row {
			c := next()
			row[j] = c.Mod(c, q)
		}
		p.RC = append(p.RC, row)
	}
	return p
}

func matVec(m [][]*big.Int, x []*big.Int, q *big.Int) []*big.Int {
	out := make([]*big.Int, len(x))
	t := new(big.Int)
	for i := range m {
		acc := new(big.Int)
		for j := range x {
			acc.Add(acc, t.Mul(m[i][j], x[j]))
		}
		out[i] = acc.Mod(acc, q)
	}
	return out
}

func (p *P2) Permute(in []*big.Int) []*big.Int {
	x := matVec(p.ME, in, p.Q)
	full := func(r int) {
		for j := range x {
			x[j].Add(x[j], p.RC[r][j])
			powSmall(x[j], p.D, p.Q)
		}
		x = matVec(p.ME, x, p.Q)
	}
	for r := 0; r < p.RF/2; r++ {
		full(r)
	}
	for r := p.RF / 2; r < p.RF/2+p.RP; r++ {
		x[0].Add(x[0], p.RC[r][0])
		powSmall(x[0], p.D, p.Q)
		x = matVec(p.MI, x, p.Q)
	}
	for r := p.RF/2 + p.RP; r < p.RF+p.RP; r++ {
		full(r)
	}
	return x
}

// Compress is the feed-forward 2-to-1 function on two halves of T/2 elements:
// out = P(left || right)[T/2:] + right.
func (p *P2) Compress(left, right []*big.Int) []*big.Int {
	x := append(append([]*big.Int{}, left...), right...)
	y := p.Permute(x)
	n := p.T / 2
	out := make([]*big.Int, n)
	for i := 0; i < n; i++ {
		out[i] = new(big.Int).Add(y[n+i], right[i])
		out[i].Mod(out[i], p.Q)
	}
	return out
}

func ints(rows ...[]int64) [][]*big.Int {
	m := make([][]*big.Int, len(rows))
	for i, r := range rows {
		m[i] = make([]*big.Int, len(r))
		for j, v := range r {
			m[i][j] = big.NewInt(v)
		}
	}
	return m
}

// SmallExternal: t=2 circ(2,1); t=3 circ(2,1,1)   (paper, section 5.1, cases t = 2, 3).
func SmallExternal(t int) [][]*big.Int {
	if t == 2 {
		return ints([]int64{2, 1}, []int64{1, 2})
	}
	return ints([]int64{2, 1, 1}, []int64{1, 2, 1}, []int64{1, 1, 2})
}

// SmallInternal: t=2 [[2,1],[1,3]]; t=3 [[2,1,1],[1,2,1],[1,1,3]]   (paper, section 5.2).
func SmallInternal(t int) [][]*big.Int {
	if t == 2 {
		return ints([]int64{2, 1}, []int64{1, 3})
	}
	return ints([]int64{2, 1, 1}, []int64{1, 2, 1}, []int64{1, 1, 3})
}

// M4Paper is the 4x4 MDS block of the paper (appendix B); M4Plonky3 is the block used by Plonky3.
var (
	M4Paper   = [4][4]int64{{5, 7, 1, 3}, {4, 6, 1, 1}, {1, 3, 5, 7}, {1, 1, 4, 6}}
	M4Plonky3 = [4][4]int64{{2, 3, 1, 1}, {1, 2, 3, 1}, {1, 1, 2, 3}, {3, 1, 1, 2}}
)

// BlockExternal builds circ(2*M4, M4, ..., M4) for t = 4k.
func BlockExternal(t int, m4 [4][4]int64) [][]*big.Int {
	m := make([][]*big.Int, t)
	for i := range m {
		m[i] = make([]*big.Int, t)
		for j := range m[i] {
			v := m4[i%4][j%4]
			if i/4 == j/4 {
				v *= 2
			}
			m[i][j] = big.NewInt(v)
		}
	}
	return m
}

// OnesPlusDiag builds J + diag(d) (all-ones matrix plus a diagonal).
func OnesPlusDiag(d []*big.Int) [][]*big.Int {
	t := len(d)
	m := make([][]*big.Int, t)
	for i := range m {
		m[i] = make([]*big.Int, t)
		for j := range m[i] {
			m[i][j] = big.NewInt(1)
		}
		m[i][i] = new(big.Int).Add(m[i][i], d[i])
	}
	return m
}

// ParseDiag reads entries like "-2", "3", "1/2", "-1/2^24", "1/8" as elements of F_q.
func ParseDiag(q *big.Int, spec string) []*big.Int {
	var out []*big.Int
	for _, s := range strings.Split(spec, ",") {
		s = strings.TrimSpace(s)
		neg := strings.HasPrefix(s, "-")
		s = strings.TrimPrefix(s, "-")
		num, den := s, "1"
		if i := strings.Index(s, "/"); i >= 0 {
			num, den = s[:i], s[i+1:]
		}
		pv := func(x string) *big.Int {
			if i := strings.Index(x, "^"); i >= 0 {
				b, _ := new(big.Int).SetString(x[:i], 10)
				e, _ := new(big.Int).SetString(x[i+1:], 10)
				return b.Exp(b, e, nil)
			}
			v, ok := new(big.Int).SetString(x, 10)
			if !ok {
				panic("ohash: bad diag entry " + x)
			}
			return v
		}
		n, d := pv(num), pv(den)
		v := new(big.Int).ModInverse(d, q)
		v.Mul(v, n)
		if neg {
			v.Neg(v)
		}
		out = append(out, v.Mod(v, q))
	}
	return out
}

// ---------------------------------------------------------------- ring-SIS

// SISKey derives the n key polynomials of degree < d: A[i][j] = BLAKE2b-256("SIS" || be64(seed) ||
// be64(i) || be64(j)) read big-endian, mod q.
func SISKey(q *big.Int, seed int64, n, d int) [][]*big.Int {
	a := make([][]*big.Int, n)
	for i := range a {
		a[i] = make([]*big.Int, d)
		for j := range a[i] {
			var buf [27]byte
			copy(buf[:3], "SIS")
			binary.BigEndian.PutUint64(buf[3:], uint64(seed))
			binary.BigEndian.PutUint64(buf[11:], uint64(i))
			binary.BigEndian.PutUint64(buf[19:], uint64(j))
			dg := blake2b.Sum256(buf[:])
			v := new(big.Int).SetBytes(dg[:])
			a[i][j] = v.Mod(v, q)
		}
	}
	return a
}

// SISNbPolys is ceil(maxElems * elemBytes/limbBytes / d).
func SISNbPolys(maxElems, elemBytes, limbBytes, d int) int {
	n := maxElems * (elemBytes / limbBytes)
	return (n + d - 1) / d
}

// Limbs decomposes each value (an integer < 2^(8*elemBytes)) into little-endian limbs of limbBytes bytes.
func Limbs(vals []*big.Int, elemBytes, limbBytes int) []uint64 {
	var out []uint64
	mask := new(big.Int).Sub(new(big.Int).Lsh(big.NewInt(1), uint(8*limbBytes)), big.NewInt(1))
	for _, v := range vals {
		t := new(big.Int).Set(v)
		for k := 0; k < elemBytes/limbBytes; k++ {
			out = append(out, new(big.Int).And(t, mask).Uint64())
			t.Rsh(t, uint(8*limbBytes))
		}
	}
	return out
}

// SISHash returns scale * sum_i A[i] * m_i mod (X^d + 1, q), where m_i is the i-th run of d limbs
// (missing limbs are zero). The reference (sis.sage shipped with the library) defines the
// coefficients as limb * 2^(-8*elemBytes), i.e. scale = 2^(-8*elemBytes) mod q.
func SISHash(q, scale *big.Int, A [][]*big.Int, limbs []uint64, d int) ([]*big.Int, error) {
	if len(limbs) > len(A)*d {
		return nil, fmt.Errorf("ohash: %d limbs exceed %d key polynomials of degree %d", len(limbs), len(A), d)
	}
	res := make([]*big.Int, d)
	if q.BitLen() <= 64 {
		qq := q.Uint64()
		acc := make([]uint64, d)
		addm := func(a, b uint64) uint64 {
			s, c := bits.Add64(a, b, 0)
			if c != 0 || s >= qq {
				s -= qq
			}
			return s
		}
		for i := range A {
			a := make([]uint64, d)
			for j := range a {
				a[j] = A[i][j].Uint64()
			}
			for b := 0; b < d; b++ {
				idx := i*d + b
				if idx >= len(limbs) || limbs[idx] == 0 {
					continue
				}
				l := limbs[idx] % qq
				for j := 0; j < d; j++ {
					hi, lo := bits.Mul64(a[j], l)
					_, r := bits.Div64(hi%qq, lo, qq)
					k := j + b
					if k >= d {
						k -= d
						if r != 0 {
							r = qq - r
						}
					}
					acc[k] = addm(acc[k], r)
				}
			}
		}
		for k := range res {
			v := new(big.Int).SetUint64(acc[k])
			v.Mul(v, scale)
			res[k] = v.Mod(v, q)
		}
		return res, nil
	}
	for k := range res {
		res[k] = new(big.Int)
	}
	t := new(big.Int)
	for i := range A {
		for b := 0; b < d; b++ {
			idx := i*d + b
			if idx >= len(limbs) || limbs[idx] == 0 {
				continue
			}
			l := new(big.Int).SetUint64(limbs[idx])
			for j := 0; j < d; j++ {
				t.Mul(A[i][j], l)
				k := j + b
				if k >= d {
					res[k-d].Sub(res[k-d], t)
				} else {
					res[k].Add(res[k], t)
				}
			}
		}
	}
	for k := range res {
		res[k].Mul(res[k], scale)
		res[k].Mod(res[k], q)
	}
	return res, nil
}
