// Package odft is the oracle for C10: the discrete Fourier transform over a prime field, written from
// its definition. It trusts math/big and math/bits only.
//
// Definitions (n = 2^k, w a primitive n-th root of unity, s a non-zero shift, s = 1 for "no coset"):
//
//	Eval(c)[i]   = sum_j c[j] * (s*w^i)^j                  (evaluations of the polynomial c on the coset s<w>)
//	Interp(y)[j] = s^-j * n^-1 * sum_i y[i] * w^(-i*j)     (the inverse map)
//
// Two back ends implement the field: Small (q < 2^64, machine words with 128-bit products) and Big
// (math/big). NaiveEval is the definition itself (Horner at every point, O(n^2)); FastEval is the textbook
// recursive radix-2 split (even/odd coefficients); the callers cross-check Fast against Naive on every
// field at small sizes in every run, and against Horner at seeded single points at large sizes.
package odft

import (
	"math/big"
	"math/bits"
)

// Arith is a prime field on values of type T (always fully reduced).
type Arith[T any] interface {
	Modulus() *big.Int
	Add(a, b T) T
	Sub(a, b T) T
	Mul(a, b T) T
	Zero() T
	One() T
	Equal(a, b T) bool
	FromBig(v *big.Int) T // v in [0,q)
	ToBig(a T) *big.Int
}

// ---------------------------------------------------------------- small fields

type Small struct {
	Q  uint64
	qb *big.Int
}

func NewSmall(q *big.Int) *Small { return &Small{Q: q.Uint64(), qb: new(big.Int).Set(q)} }

func (f *Small) Modulus() *big.Int { return f.qb }
func (f *Small) Zero() uint64      { return 0 }
func (f *Small) One() uint64       { return 1 % f.Q }
func (f *Small) Add(a, b uint64) uint64 {
	s, c := bits.Add64(a, b, 0)
	if c != 0 || s >= f.Q {
		s -= f.Q
	}
	return s
}
func (f *Small) Sub(a, b uint64) uint64 {
	if a >= b {
		return a - b
	}
	return a + (f.Q - b) // a < b <= q-1 so no overflow: a + q - b < q
}
func (f *Small) Mul(a, b uint64) uint64 {
	hi, lo := bits.Mul64(a, b)
	_, r := bits.Div64(hi, lo, f.Q) // hi < q because a,b < q
	return r
}
func (f *Small) Equal(a, b uint64) bool    { return a == b }
func (f *Small) FromBig(v *big.Int) uint64 { return v.Uint64() }
func (f *Small) ToBig(a uint64) *big.Int   { return new(big.Int).SetUint64(a) }

// ---------------------------------------------------------------- big fields

type Big struct{ Q *big.Int }

func NewBig(q *big.Int) *Big { return &Big{Q: new(big.Int).Set(q)} }

func (f *Big) Modulus() *big.Int { return f.Q }
func (f *Big) Zero() *big.Int    { return new(big.Int) }
func (f *Big) One() *big.Int     { return big.NewInt(1) }
func (f *Big) Add(a, b *big.Int) *big.Int {
	r := new(big.Int).Add(a, b)
	if r.Cmp(f.Q) >= 0 {
		r.Sub(r, f.Q)
	}
	return r
}
func (f *Big) Sub(a, b *big.Int) *big.Int {
	r := new(big.Int).Sub(a, b)
	if r.Sign() < 0 {
		r.Add(r, f.Q)
	}
	return r
}
func (f *Big) Mul(a, b *big.Int) *big.Int {
	r := new(big.Int).Mul(a, b)
	return r.Mod(r, f.Q)
}
func (f *Big) Equal(a, b *big.Int) bool    { return a.Cmp(b) == 0 }
func (f *Big) FromBig(v *big.Int) *big.Int { return new(big.Int).Set(v) }
func (f *Big) ToBig(a *big.Int) *big.Int   { return new(big.Int).Set(a) }

// ---------------------------------------------------------------- generic helpers

// Pow returns a^e (e >= 0) by square and multiply.
func Pow[T any](A Arith[T], a T, e uint64) T {
	r := A.One()
	for i := 63; i >= 0; i-- {
		r = A.Mul(r, r)
		if e>>uint(i)&1 == 1 {
			r = A.Mul(r, a)
		}
	}
	return r
}

// Inv returns a^-1 (a != 0) through math/big.
func Inv[T any](A Arith[T], a T) T {
	return A.FromBig(new(big.Int).ModInverse(A.ToBig(a), A.Modulus()))
}

// IsPrimitiveRoot reports whether w has multiplicative order exactly n = 2^k.
func IsPrimitiveRoot[T any](A Arith[T], w T, n uint64) bool {
	if n == 1 {
		return A.Equal(w, A.One())
	}
	h := Pow(A, w, n/2)
	minusOne := A.Sub(A.Zero(), A.One())
	return A.Equal(h, minusOne) // then w^n = 1 and the order does not divide n/2
}

// Rev reverses the low k bits of i.
func Rev(i uint64, k int) uint64 {
	var r uint64
	for b := 0; b < k; b++ {
		r = r<<1 | (i>>uint(b))&1
	}
	return r
}

// Log2 returns k for n = 2^k.
func Log2(n int) int {
	k := 0
	for 1<<uint(k) < n {
		k++
	}
	return k
}

// Permute returns v in bit-reversed order: out[Rev(i)] = v[i].
func Permute[T any](v []T) []T {
	k := Log2(len(v))
	out := make([]T, len(v))
	for i := range v {
		out[Rev(uint64(i), k)] = v[i]
	}
	return out
}

// HornerAt evaluates sum_j c[j] x^j.
func HornerAt[T any](A Arith[T], c []T, x T) T {
	r := A.Zero()
	for j := len(c) - 1; j >= 0; j-- {
		r = A.Add(A.Mul(r, x), c[j])
	}
	return r
}

// NaiveEval is the definition: Eval(c)[i] = c(s*w^i).
func NaiveEval[T any](A Arith[T], c []T, w, s T) []T {
	out := make([]T, len(c))
	x := s
	for i := range c {
		out[i] = HornerAt(A, c, x)
		x = A.Mul(x, w)
	}
	return out
}

// plainDFT returns (sum_j c[j] w^(ij))_i by the even/odd split; w has order len(c).
func plainDFT[T any](A Arith[T], c []T, w T) []T {
	n := len(c)
	if n == 1 {
		return []T{c[0]}
	}
	h := n / 2
	ev, od := make([]T, h), make([]T, h)
	for j := 0; j < h; j++ {
		ev[j], od[j] = c[2*j], c[2*j+1]
	}
	w2 := A.Mul(w, w)
	E, O := plainDFT(A, ev, w2), plainDFT(A, od, w2)
	out := make([]T, n)
	t := A.One()
	for i := 0; i < h; i++ {
		x := A.Mul(t, O[i])
		out[i] = A.Add(E[i], x)   // c(w^i)     = E(w^2i) + w^i O(w^2i)
		out[i+h] = A.Sub(E[i], x) // c(w^(i+h)) = E(w^2i) - w^i O(w^2i)   (w^h = -1)
		t = A.Mul(t, w)
	}
	return out
}

// FastEval computes Eval(c) in O(n log n): scale c[j] by s^j, then the plain transform.
func FastEval[T any](A Arith[T], c []T, w, s T) []T {
	sc := make([]T, len(c))
	p := A.One()
	for j := range c {
		sc[j] = A.Mul(c[j], p)
		p = A.Mul(p, s)
	}
	return plainDFT(A, sc, w)
}

// FastInterp computes Interp(y): plain transform with w^-1, then scale by n^-1 * s^-j.
func FastInterp[T any](A Arith[T], y []T, w, s T) []T {
	n := len(y)
	wi, si := Inv(A, w), Inv(A, s)
	ni := Inv(A, A.FromBig(new(big.Int).Mod(big.NewInt(int64(n)), A.Modulus())))
	d := plainDFT(A, y, wi)
	p := ni
	for j := range d {
		d[j] = A.Mul(d[j], p)
		p = A.Mul(p, si)
	}
	return d
}

// ScalePow returns (v[j] * b^j)_j.
func ScalePow[T any](A Arith[T], v []T, b T) []T {
	out := make([]T, len(v))
	p := A.One()
	for j := range v {
		out[j] = A.Mul(v[j], p)
		p = A.Mul(p, b)
	}
	return out
}

// BasisEval is Eval(lam*e_j) in closed form: lam * s^j * (w^j)^i.
func BasisEval[T any](A Arith[T], n, j int, lam, w, s T) []T {
	out := make([]T, n)
	step := Pow(A, w, uint64(j))
	p := A.Mul(lam, Pow(A, s, uint64(j)))
	for i := range out {
		out[i] = p
		p = A.Mul(p, step)
	}
	return out
}

// BasisInterp is Interp(lam*e_i) in closed form: lam * n^-1 * (s^-1 * w^-i)^j.
func BasisInterp[T any](A Arith[T], n, i int, lam, w, s T) []T {
	out := make([]T, n)
	step := A.Mul(Inv(A, s), Pow(A, Inv(A, w), uint64(i)))
	p := A.Mul(lam, Inv(A, A.FromBig(new(big.Int).Mod(big.NewInt(int64(n)), A.Modulus()))))
	for j := range out {
		out[j] = p
		p = A.Mul(p, step)
	}
	return out
}
