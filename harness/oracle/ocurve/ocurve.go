// Package ocurve: textbook affine chord-and-tangent group law on y^2 = x^3 + a x + b over any
// oracle field, with an explicit point at infinity; scalar multiplication by double-and-add.
package ocurve

import (
	"math/big"

	"verif/harness/oracle/ofield"
)

type Pt struct {
	X, Y ofield.El
	Inf  bool
}

type Curve struct {
	F    *ofield.Fld
	A, B ofield.El
}

func (c *Curve) Infinity() Pt { return Pt{Inf: true} }

func (c *Curve) IsOnCurve(p Pt) bool {
	if p.Inf {
		return true
	}
	f := c.F
	l := f.Sqr(p.Y)
	r := f.Add(f.Add(f.Mul(f.Sqr(p.X), p.X), f.Mul(c.A, p.X)), c.B)
	return f.Eq(l, r)
}

func (c *Curve) Eq(p, q Pt) bool {
	if p.Inf || q.Inf {
		return p.Inf == q.Inf
	}
	return c.F.Eq(p.X, q.X) && c.F.Eq(p.Y, q.Y)
}

func (c *Curve) Neg(p Pt) Pt {
	if p.Inf {
		return p
	}
	return Pt{X: c.F.Copy(p.X), Y: c.F.Neg(p.Y)}
}

func (c *Curve) Double(p Pt) Pt {
	f := c.F
	if p.Inf || f.IsZero(p.Y) {
		return Pt{Inf: true}
	}
	l := f.Div(f.Add(f.MulInt(f.Sqr(p.X), 3), c.A), f.MulInt(p.Y, 2))
	x := f.Sub(f.Sqr(l), f.MulInt(p.X, 2))
	y := f.Sub(f.Mul(l, f.Sub(p.X, x)), p.Y)
	return Pt{X: x, Y: y}
}

func (c *Curve) Add(p, q Pt) Pt {
	f := c.F
	if p.Inf {
		return q
	}
	if q.Inf {
		return p
	}
	if f.Eq(p.X, q.X) {
		if f.Eq(p.Y, q.Y) {
			return c.Double(p)
		}
		return Pt{Inf: true}
	}
	l := f.Div(f.Sub(q.Y, p.Y), f.Sub(q.X, p.X))
	x := f.Sub(f.Sub(f.Sqr(l), p.X), q.X)
	y := f.Sub(f.Mul(l, f.Sub(p.X, x)), p.Y)
	return Pt{X: x, Y: y}
}

func (c *Curve) Sub(p, q Pt) Pt { return c.Add(p, c.Neg(q)) }

// Mul returns [s]P for any integer s (negative: -[|s|]P).
func (c *Curve) Mul(p Pt, s *big.Int) Pt {
	k := new(big.Int).Abs(s)
	r := Pt{Inf: true}
	for i := k.BitLen() - 1; i >= 0; i-- {
		r = c.Double(r)
		if k.Bit(i) == 1 {
			r = c.Add(r, p)
		}
	}
	if s.Sign() < 0 {
		r = c.Neg(r)
	}
	return r
}

// LiftX returns a point with the given x when x^3+ax+b is a square.
func (c *Curve) LiftX(x ofield.El) (Pt, bool) {
	f := c.F
	rhs := f.Add(f.Add(f.Mul(f.Sqr(x), x), f.Mul(c.A, x)), c.B)
	y, ok := f.Sqrt(rhs)
	if !ok {
		return Pt{}, false
	}
	return Pt{X: f.Copy(x), Y: y}, true
}

func (c *Curve) String(p Pt) string {
	if p.Inf {
		return "O"
	}
	return "(" + c.F.String(p.X) + "," + c.F.String(p.Y) + ")"
}
