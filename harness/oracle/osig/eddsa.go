// Package osig: textbook verification (and deterministic signing) of the two signature schemes of the
// library, written from the specifications over math/big and the oracle curves:
//
//   - EdDSA over a twisted Edwards curve (RFC 8032 structure: point encoding of section 5.1.2/5.1.3,
//     cofactored verification equation [c][S]B = [c](R + [h]A), ranges 0 < S < l, canonical R.y), with the
//     library's documented instantiation choices: the challenge is the big-endian integer of
//     H(R.x || R.y || A.x || A.y || M) over fixed-width big-endian coordinates, the nonce is the first
//     sizeFr bytes of BLAKE2b-512(randSrc || M), and an encoded R.y = 0 is refused;
//   - ECDSA (SEC 1 v2, sections 4.1.3, 4.1.4, 4.1.6; FIPS 186-4 section 6.4 for the digest truncation).
package osig

import (
	"errors"
	"hash"
	"math/big"

	"golang.org/x/crypto/blake2b"

	"verif/harness/oracle/ofield"
	"verif/harness/oracle/oted"
)

// Ed holds the parameters of one EdDSA instance.
type Ed struct {
	C    *oted.Curve
	F    *ofield.Fld
	Q    *big.Int // field of definition
	L    *big.Int // prime subgroup order
	Cof  *big.Int
	B    oted.Pt
	N    int // bytes of a field element (= bytes of S)
	half *big.Int
}

func NewEd(c *oted.Curve, q, l, cof *big.Int, b oted.Pt, n int) *Ed {
	h := new(big.Int).Sub(q, big.NewInt(1))
	h.Rsh(h, 1)
	return &Ed{C: c, F: c.F, Q: q, L: l, Cof: cof, B: b, N: n, half: h}
}

// Decision of the oracle on one candidate.
type Decision struct {
	Accept bool
	Reason string // why it is refused (or "equation-holds")
	Undef  bool   // the oracle cannot decide (exceptional addition on an incomplete curve)
}

func (e *Ed) be(v *big.Int) []byte { return v.FillBytes(make([]byte, e.N)) }

// Encode is RFC 8032 5.1.2 with the library's sign convention: y little endian on N bytes, the top bit of
// the last byte set when x is the larger of {x, q-x}.
func (e *Ed) Encode(p oted.Pt) []byte {
	b := e.be(p.Y[0])
	for i, j := 0, len(b)-1; i < j; i, j = i+1, j-1 {
		b[i], b[j] = b[j], b[i]
	}
	if p.X[0].Cmp(e.half) > 0 {
		b[e.N-1] |= 0x80
	}
	return b
}

// Decode is the strict decoding (RFC 8032 5.1.3): y < q, x recoverable, and not (x = 0 with the sign bit set).
// status: "ok", "short", "y>=q", "no-root", "x=0-with-sign-bit".
func (e *Ed) Decode(b []byte) (oted.Pt, string) {
	p, st, _ := e.DecodeLenient(b)
	return p, st
}

// DecodeLenient also returns the point a decoder that ignores the two canonicity rules would obtain
// (y reduced mod q, sign bit ignored for x = 0); ok=false if no such point exists.
func (e *Ed) DecodeLenient(b []byte) (oted.Pt, string, bool) {
	if len(b) < e.N {
		return oted.Pt{}, "short", false
	}
	t := make([]byte, e.N)
	for i := 0; i < e.N; i++ {
		t[e.N-1-i] = b[i]
	}
	sign := t[0]&0x80 != 0
	t[0] &= 0x7f
	y := new(big.Int).SetBytes(t)
	status := "ok"
	if y.Cmp(e.Q) >= 0 {
		status = "y>=q"
		y.Mod(y, e.Q)
	}
	p, ok := e.C.LiftY(ofield.El{y})
	if !ok {
		if status == "ok" {
			status = "no-root"
		}
		return oted.Pt{}, status, false
	}
	if (p.X[0].Cmp(e.half) > 0) != sign {
		p.X = e.F.Neg(p.X)
	}
	if p.X[0].Sign() == 0 && sign && status == "ok" {
		status = "x=0-with-sign-bit"
	}
	return p, status, true
}

// Challenge is the integer of H(R.x || R.y || A.x || A.y || M).
func (e *Ed) Challenge(h hash.Hash, r, a oted.Pt, msg []byte) (*big.Int, error) {
	h.Reset()
	for _, b := range [][]byte{e.be(r.X[0]), e.be(r.Y[0]), e.be(a.X[0]), e.be(a.Y[0]), msg} {
		if _, err := h.Write(b); err != nil {
			return nil, err
		}
	}
	return new(big.Int).SetBytes(h.Sum(nil)), nil
}

// ParseSig applies the format rules: length 2N, 0 < y(R) < q, 0 < S < l, R decodes strictly.
func (e *Ed) ParseSig(sig []byte) (r oted.Pt, s *big.Int, reason string) {
	if len(sig) != 2*e.N {
		return r, nil, "length"
	}
	t := make([]byte, e.N)
	for i := 0; i < e.N; i++ {
		t[e.N-1-i] = sig[i]
	}
	t[0] &= 0x7f
	y := new(big.Int).SetBytes(t)
	if y.Sign() == 0 {
		return r, nil, "R.y=0"
	}
	if y.Cmp(e.Q) >= 0 {
		return r, nil, "R.y>=q"
	}
	s = new(big.Int).SetBytes(sig[e.N:])
	if s.Sign() == 0 {
		return r, nil, "S=0"
	}
	if s.Cmp(e.L) >= 0 {
		return r, nil, "S>=l"
	}
	r, st := e.Decode(sig[:e.N])
	if st != "ok" {
		return r, nil, "R:" + st
	}
	return r, s, ""
}

var ErrNoHash = errors.New("osig: no hash")

// Verify decides a candidate (A is any pair of coordinates, sig and msg any byte strings).
func (e *Ed) Verify(a oted.Pt, sig, msg []byte, h hash.Hash) Decision {
	if h == nil {
		return Decision{Reason: "nil-hash"}
	}
	if !e.C.IsOnCurve(a) {
		return Decision{Reason: "A-off-curve"}
	}
	r, s, why := e.ParseSig(sig)
	if why != "" {
		return Decision{Reason: why}
	}
	k, err := e.Challenge(h, r, a, msg)
	if err != nil {
		return Decision{Reason: "hash-error"}
	}
	return e.Equation(a, r, s, k)
}

// Equation: [c][S]B == [c](R + [k]A), evaluated as [c]([S]B + [k](-A) - R) == O with a simultaneous
// double-and-add over the unified affine law.
func (e *Ed) Equation(a, r oted.Pt, s, k *big.Int) Decision {
	c := e.C
	d, ok := e.jointMul(e.B, s, c.Neg(a), k)
	if !ok {
		return Decision{Undef: true}
	}
	if d, ok = c.Add(d, c.Neg(r)); !ok {
		return Decision{Undef: true}
	}
	if d, ok = c.TryMul(d, e.Cof); !ok {
		return Decision{Undef: true}
	}
	if c.Eq(d, c.Zero()) {
		return Decision{Accept: true, Reason: "equation-holds"}
	}
	return Decision{Reason: "equation-fails"}
}

// EquationPlain evaluates both sides separately (used to cross-check Equation).
func (e *Ed) EquationPlain(a, r oted.Pt, s, k *big.Int) Decision {
	c := e.C
	sb, ok := c.TryMul(e.B, s)
	if !ok {
		return Decision{Undef: true}
	}
	lhs, ok := c.TryMul(sb, e.Cof)
	if !ok {
		return Decision{Undef: true}
	}
	ka, ok := c.TryMul(a, k)
	if !ok {
		return Decision{Undef: true}
	}
	sum, ok := c.Add(r, ka)
	if !ok {
		return Decision{Undef: true}
	}
	rhs, ok := c.TryMul(sum, e.Cof)
	if !ok {
		return Decision{Undef: true}
	}
	if c.Eq(lhs, rhs) {
		return Decision{Accept: true, Reason: "equation-holds"}
	}
	return Decision{Reason: "equation-fails"}
}

func (e *Ed) jointMul(p oted.Pt, a *big.Int, q oted.Pt, b *big.Int) (oted.Pt, bool) {
	c := e.C
	pq, ok := c.Add(p, q)
	if !ok {
		return oted.Pt{}, false
	}
	r := c.Zero()
	n := a.BitLen()
	if b.BitLen() > n {
		n = b.BitLen()
	}
	for i := n - 1; i >= 0; i-- {
		if r, ok = c.Add(r, r); !ok {
			return oted.Pt{}, false
		}
		var t oted.Pt
		switch a.Bit(i) | b.Bit(i)<<1 {
		case 0:
			continue
		case 1:
			t = p
		case 2:
			t = q
		case 3:
			t = pq
		}
		if r, ok = c.Add(r, t); !ok {
			return oted.Pt{}, false
		}
	}
	return r, true
}

// Nonce is the documented deterministic nonce: big-endian integer of the first N bytes of
// BLAKE2b-512(randSrc || msg) (not reduced).
func (e *Ed) Nonce(randSrc, msg []byte) *big.Int {
	d := blake2b.Sum512(append(append([]byte(nil), randSrc...), msg...))
	return new(big.Int).SetBytes(d[:e.N])
}

// Sign is the documented signing procedure: R = [r]B, S = r + H(R,A,M)*a mod l; returns enc(R) || S.
func (e *Ed) Sign(scalar *big.Int, randSrc []byte, a oted.Pt, msg []byte, h hash.Hash) ([]byte, oted.Pt, error) {
	if h == nil {
		return nil, oted.Pt{}, ErrNoHash
	}
	r := e.Nonce(randSrc, msg)
	rp := e.C.Mul(e.B, r)
	k, err := e.Challenge(h, rp, a, msg)
	if err != nil {
		return nil, rp, err
	}
	s := new(big.Int).Mul(k, scalar)
	s.Add(s, r).Mod(s, e.L)
	return append(e.Encode(rp), e.be(s)...), rp, nil
}

// DeriveKey is the documented key derivation from the 32 seed bytes (RFC 8032 5.1.5 pruning on the
// little-endian scalar): for N = 32, h = BLAKE2b-512(seed), scalar = prune(h[:32]), randSrc = h[32:];
// for wider fields (two digests, as documented in the bw6 packages) h1 = BLAKE2b-512(seed),
// scalar = prune(h1[:N]), randSrc = BLAKE2b-512(h1)[:32]. The scalar is returned big endian on N bytes.
func (e *Ed) DeriveKey(seed []byte) (scalar, randSrc []byte) {
	h1 := blake2b.Sum512(seed)
	randSrc = make([]byte, 32)
	if e.N == 32 {
		copy(randSrc, h1[32:])
	} else {
		h2 := blake2b.Sum512(h1[:])
		copy(randSrc, h2[:32])
	}
	le := append([]byte(nil), h1[:e.N]...)
	le[0] &= 0xF8
	le[e.N-1] &= 0x7F
	le[e.N-1] |= 0x40
	scalar = make([]byte, e.N)
	for i := range le {
		scalar[e.N-1-i] = le[i]
	}
	return
}

// Torsion returns the points [l]P for the given on-curve P (an element of the cofactor torsion).
func (e *Ed) Torsion(p oted.Pt) (oted.Pt, bool) { return e.C.TryMul(p, e.L) }
