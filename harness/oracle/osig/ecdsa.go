package osig

import (
	"math/big"

	"verif/harness/oracle/ocurve"
	"verif/harness/oracle/ofield"
)

// Ec holds the parameters of one ECDSA instance: curve E/Fp, base point G of prime order N.
type Ec struct {
	C       *ocurve.Curve
	G       ocurve.Pt
	N, P    *big.Int
	FrBytes int
	FrBits  int
}

// HashToInt is FIPS 186-4 6.4 / SEC 1 4.1.3 step 5: the leftmost min(bitlen(n), 8*len(d)) bits of the digest
// (as a bit string, leading zero bits included), read as a big-endian integer.
func (e *Ec) HashToInt(d []byte) *big.Int {
	ob := (e.FrBits + 7) / 8
	if len(d) > ob {
		d = d[:ob]
	}
	z := new(big.Int).SetBytes(d)
	if ex := len(d)*8 - e.FrBits; ex > 0 {
		z.Rsh(z, uint(ex))
	}
	return z
}

// HashToIntBitLen is the variant "truncate to FrBytes bytes, then shift right only by the number of
// significant bits in excess of bitlen(n)" (leading zero bits of the digest are not counted).
func (e *Ec) HashToIntBitLen(d []byte) *big.Int {
	if len(d) > e.FrBytes {
		d = d[:e.FrBytes]
	}
	z := new(big.Int).SetBytes(d)
	if ex := z.BitLen() - e.FrBits; ex > 0 {
		z.Rsh(z, uint(ex))
	}
	return z
}

// ParseSig: length 2*FrBytes, 0 < r,s < n.
func (e *Ec) ParseSig(sig []byte) (r, s *big.Int, reason string) {
	if len(sig) != 2*e.FrBytes {
		return nil, nil, "length"
	}
	r = new(big.Int).SetBytes(sig[:e.FrBytes])
	s = new(big.Int).SetBytes(sig[e.FrBytes:])
	switch {
	case r.Sign() == 0:
		return nil, nil, "r=0"
	case r.Cmp(e.N) >= 0:
		return nil, nil, "r>=n"
	case s.Sign() == 0:
		return nil, nil, "s=0"
	case s.Cmp(e.N) >= 0:
		return nil, nil, "s>=n"
	}
	return r, s, ""
}

// VerifyZ is SEC 1 4.1.4 steps 4-8 for the integer z: X = [z/s]G + [r/s]Q, refuse X = O, accept iff x(X) mod n = r.
// Q is any point of the curve (possibly O, treated as the neutral element). Returns X for recovery checks.
func (e *Ec) VerifyZ(q ocurve.Pt, r, s, z *big.Int) (Decision, ocurve.Pt) {
	si := new(big.Int).ModInverse(s, e.N)
	u1 := new(big.Int).Mul(z, si)
	u1.Mod(u1, e.N)
	u2 := new(big.Int).Mul(r, si)
	u2.Mod(u2, e.N)
	x := JointMul(e.C, e.G, u1, q, u2)
	if x.Inf {
		return Decision{Reason: "X=O"}, x
	}
	v := new(big.Int).Mod(x.X[0], e.N)
	if v.Cmp(r) == 0 {
		return Decision{Accept: true, Reason: "equation-holds"}, x
	}
	return Decision{Reason: "equation-fails"}, x
}

// Recover is SEC 1 4.1.6 for one candidate: x = r + (v>>1 & 1)*n must be < p and the abscissa of a curve point R
// whose y has parity v&1; Q = r^-1 (s R - z G). ok=false when no such R exists.
func (e *Ec) Recover(z *big.Int, v uint, r, s *big.Int) (ocurve.Pt, string) {
	if r.Sign() <= 0 || r.Cmp(e.N) >= 0 || s.Sign() <= 0 || s.Cmp(e.N) >= 0 {
		return ocurve.Pt{}, "range"
	}
	x := new(big.Int).Set(r)
	if v&2 != 0 {
		x.Add(x, e.N)
	}
	if x.Cmp(e.P) >= 0 {
		return ocurve.Pt{}, "x>=p"
	}
	rp, ok := e.C.LiftX(ofield.El{x})
	if !ok {
		return ocurve.Pt{}, "no-root"
	}
	if rp.Y[0].Bit(0) != v&1 {
		rp = e.C.Neg(rp)
	}
	ri := new(big.Int).ModInverse(r, e.N)
	u1 := new(big.Int).Mul(z, ri)
	u1.Neg(u1).Mod(u1, e.N)
	u2 := new(big.Int).Mul(s, ri)
	u2.Mod(u2, e.N)
	return JointMul(e.C, e.G, u1, rp, u2), ""
}

// JointMul returns [a]P + [b]Q (a, b >= 0) by simultaneous double-and-add over the textbook group law
// (one doubling per bit, one addition of P, Q or P+Q per non-zero bit column).
func JointMul(c *ocurve.Curve, p ocurve.Pt, a *big.Int, q ocurve.Pt, b *big.Int) ocurve.Pt {
	pq := c.Add(p, q)
	r := ocurve.Pt{Inf: true}
	n := a.BitLen()
	if b.BitLen() > n {
		n = b.BitLen()
	}
	for i := n - 1; i >= 0; i-- {
		r = c.Double(r)
		switch a.Bit(i) | b.Bit(i)<<1 {
		case 1:
			r = c.Add(r, p)
		case 2:
			r = c.Add(r, q)
		case 3:
			r = c.Add(r, pq)
		}
	}
	return r
}
