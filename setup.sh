#!/bin/sh
# Offline setup: nothing to fetch. Pre-builds the harness binaries so the first check is warm.
export GOFLAGS=-mod=mod GOPROXY=off GOSUMDB=off GOTOOLCHAIN=local
cd /verif/harness || exit 1
mkdir -p /verif/.build /verif/evidence
go build -tags verif -o /dev/null ./... 2>&1 | tail -20
exit 0
