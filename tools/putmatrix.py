#!/usr/bin/env python3
"""regenerates the seeded-change matrix inside DESIGN.md (between the MATRIX markers) from seeded/*/meta.json"""
import subprocess
m = subprocess.run(["python3", "/verif/tools/seedmatrix.py"], capture_output=True, text=True).stdout
s = open("/verif/DESIGN.md").read()
a = s.index("<!-- MATRIX-BEGIN -->") + len("<!-- MATRIX-BEGIN -->")
b = s.index("<!-- MATRIX-END -->")
open("/verif/DESIGN.md", "w").write(s[:a] + "\n" + m + s[b:])
print("matrix rows:", m.count("\n") - 2)
