#!/usr/bin/env python3
"""Generates (1) verif-tagged shim files in /repo curve packages exporting the unexported point routines,
(2) /verif/harness/adapt/groups/zz_<group>.go adapters exposing every point operation as a closure over
oracle-level coordinates (Rep). Outputs are committed."""
import os, re, sys
REPO = "/repo"
OUT = "/verif/harness/adapt/groups"
MOD = "github.com/consensys/gnark-crypto"
os.makedirs(OUT, exist_ok=True)

curves = [
    # dir, pkg, groups [(prefix, file, coordkind, coordtype)]
    ("bn254", "bn254", [("G1", "g1.go", "fp", "fp.Element"), ("G2", "g2.go", "e2", "curve.VerifG2Coord")]),
    ("bls12-377", "bls12377", [("G1", "g1.go", "fp", "fp.Element"), ("G2", "g2.go", "e2", "curve.VerifG2Coord")]),
    ("bls12-381", "bls12381", [("G1", "g1.go", "fp", "fp.Element"), ("G2", "g2.go", "e2", "curve.VerifG2Coord")]),
    ("bls24-315", "bls24315", [("G1", "g1.go", "fp", "fp.Element"), ("G2", "g2.go", "e4", "curve.VerifG2Coord")]),
    ("bls24-317", "bls24317", [("G1", "g1.go", "fp", "fp.Element"), ("G2", "g2.go", "e4", "curve.VerifG2Coord")]),
    ("bw6-633", "bw6633", [("G1", "g1.go", "fp", "fp.Element"), ("G2", "g2.go", "fp", "fp.Element")]),
    ("bw6-761", "bw6761", [("G1", "g1.go", "fp", "fp.Element"), ("G2", "g2.go", "fp", "fp.Element")]),
    ("grumpkin", "grumpkin", [("G1", "g1.go", "fp", "fp.Element")]),
    ("secp256k1", "secp256k1", [("G1", "g1.go", "fp", "fp.Element")]),
    ("stark-curve", "starkcurve", [("G1", "g1.go", "fp", "fp.Element")]),
]

SHIM_HEAD = '''//go:build verif

// Code added for /verif runtime monitors: exported forwarders to unexported point routines.
// Compiled only with -tags verif; adds no behaviour.

package %(pkg)s

import (
	"math/big"
@IMPORTS@)

var _ = big.NewInt
'''

def has(src, pat):
    return re.search(pat, src, re.M) is not None

names = []
for cdir, pkg, groups in curves:
    shim = SHIM_HEAD % dict(pkg=pkg)
    imports = set()
    for G, fn, kind, ctype in groups:
        src = open(os.path.join(REPO, "ecc", cdir, fn)).read()
        g = G.lower()
        ext = g + "JacExtended"
        feat = dict(
            glv=has(src, r"func \(p \*%sJac\) mulGLV" % G),
            windowed=has(src, r"func \(p \*%sJac\) mulWindowed" % G),
            jointAff=has(src, r"func \(p \*%sJac\) JointScalarMultiplication\(a1, a2 \*%sAffine" % (G, G)),
            jointJac=has(src, r"func \(p \*%sJac\) JointScalarMultiplication\(p1, p2 \*%sJac" % (G, G)),
            jointBase=has(src, r"func \(p \*%sJac\) JointScalarMultiplicationBase" % G),
            batchSM=has(src, r"func BatchScalarMultiplication%s" % G),
            batchJ2A=has(src, r"func BatchJacobianToAffine%s" % G),
            affDouble=has(src, r"func \(p \*%sAffine\) Double" % G),
            doubleMixed=has(src, r"func \(p \*%sJac\) DoubleMixed" % G),
            smBaseAff=has(src, r"func \(p \*%sAffine\) ScalarMultiplicationBase" % G),
            smBaseJac=has(src, r"func \(p \*%sJac\) ScalarMultiplicationBase" % G),
            unsafeFromExt=has(src, r"func \(p \*%sJac\) unsafeFromJacExtended" % G),
            extSetInf=has(src, r"func \(p \*%s\) SetInfinity" % ext),
            clearCof=has(src, r"func \(p \*%sJac\) ClearCofactor" % G),
            proj=has(src, r"type %sProj struct" % g),
            multiexp=os.path.exists(os.path.join(REPO, "ecc", cdir, "multiexp.go")),
        )
        # ---- shim ----
        if G == "G2" and kind != "fp":
            shim += "\n// VerifG2Coord is the coordinate field of the twist.\ntype VerifG2Coord = fptower.%s\n" % kind.upper()
            imports.add("github.com/consensys/gnark-crypto/ecc/%s/internal/fptower" % cdir)
        shim += "\n// ---- %s ----\n\n// Verif%sJacExtended exposes the extended-Jacobian bucket type.\ntype Verif%sJacExtended = %s\n\n" % (G, G, G, ext)
        if feat["windowed"]:
            shim += "func (p *%sJac) VerifMulWindowed(q *%sJac, s *big.Int) *%sJac { return p.mulWindowed(q, s) }\n\n" % (G, G, G)
        if feat["glv"]:
            shim += "func (p *%sJac) VerifMulGLV(q *%sJac, s *big.Int) *%sJac { return p.mulGLV(q, s) }\n\n" % (G, G, G)
        shim += "// Verif%sExtOp applies one unexported bucket operation.\nfunc Verif%sExtOp(op string, p, q *%s, a *%sAffine) {\n\tswitch op {\n" % (G, G, ext, G)
        shim += "\tcase \"add\":\n\t\tp.add(q)\n\tcase \"double\":\n\t\tp.double(q)\n\tcase \"addMixed\":\n\t\tp.addMixed(a)\n\tcase \"subMixed\":\n\t\tp.subMixed(a)\n\tcase \"doubleMixed\":\n\t\tp.doubleMixed(a)\n\tcase \"doubleNegMixed\":\n\t\tp.doubleNegMixed(a)\n"
        shim += "\tdefault:\n\t\tpanic(\"unknown op\")\n\t}\n}\n\n"
        shim += "func Verif%sAffineFromExt(p *%sAffine, q *%s) { p.fromJacExtended(q) }\n" % (G, G, ext)
        shim += "func Verif%sJacFromExt(p *%sJac, q *%s)    { p.fromJacExtended(q) }\n" % (G, G, ext)
        if feat["unsafeFromExt"]:
            shim += "func Verif%sJacUnsafeFromExt(p *%sJac, q *%s) { p.unsafeFromJacExtended(q) }\n" % (G, G, ext)
        if feat["multiexp"]:
            shim += "\n// VerifInnerMsm%s runs the bucket method with a forced window size c.\nfunc VerifInnerMsm%s(c uint64, points []%sAffine, scalars []fr.Element, nbTasks int) %sJac {\n\tvar p %sJac\n\t_innerMsm%s(&p, c, points, scalars, ecc.MultiExpConfig{NbTasks: nbTasks})\n\treturn p\n}\n" % (G, G, G, G, G, G)
            if G == "G1":
                shim += "\n// VerifPartitionScalars forwards to partitionScalars (digits only).\nfunc VerifPartitionScalars(scalars []fr.Element, c uint64, nbTasks int) []uint16 {\n\td, _ := partitionScalars(scalars, c, nbTasks)\n\treturn d\n}\n"
                imports.add("github.com/consensys/gnark-crypto/ecc")
                imports.add("github.com/consensys/gnark-crypto/ecc/%s/fr" % cdir)
        # ---- adapter ----
        name = "%s_%s" % (pkg, G)
        fnname = pkg.capitalize() + G
        names.append((cdir + "/" + G, fnname, feat))
        if kind == "fp":
            toEl = "func(e *fp.Element) ofield.El { return ofield.El{e.BigInt(new(big.Int))} }"
            fromEl = "func(v ofield.El) (e fp.Element) { e.SetBigInt(v[0]); return }"
        elif kind == "e2":
            toEl = "func(e *curve.VerifG2Coord) ofield.El { return ofield.El{e.A0.BigInt(new(big.Int)), e.A1.BigInt(new(big.Int))} }"
            fromEl = "func(v ofield.El) (e curve.VerifG2Coord) { e.A0.SetBigInt(v[0]); e.A1.SetBigInt(v[1]); return }"
        else:
            toEl = "func(e *curve.VerifG2Coord) ofield.El { return ofield.El{e.B0.A0.BigInt(new(big.Int)), e.B0.A1.BigInt(new(big.Int)), e.B1.A0.BigInt(new(big.Int)), e.B1.A1.BigInt(new(big.Int))} }"
            fromEl = "func(v ofield.El) (e curve.VerifG2Coord) { e.B0.A0.SetBigInt(v[0]); e.B0.A1.SetBigInt(v[1]); e.B1.A0.SetBigInt(v[2]); e.B1.A1.SetBigInt(v[3]); return }"
        A, J, X = "curve.%sAffine" % G, "curve.%sJac" % G, "curve.Verif%sJacExtended" % G
        ops = []
        RETURNS_RECEIVER = {"Add", "Sub", "Double", "Neg", "AddAssign", "SubAssign", "AddMixed", "DoubleAssign", "DoubleMixed",
                            "FromAffine", "FromJacobian", "Set", "ScalarMultiplication", "ScalarMultiplicationBase"}
        def op(name, sem, ins, out, nsc, body):
            # methods return their receiver (so that calls can be chained): check it where the call is "<recv>.<M>(...)"
            # directly followed by "return rep..(&<recv>)"
            m = re.search(r"(\w+)\.(\w+)\((.*)\); return (rep\w+)\(&(\w+)\)$", body)
            if m and m.group(1) == m.group(5) and m.group(2) in RETURNS_RECEIVER:
                call = "%s.%s(%s)" % (m.group(1), m.group(2), m.group(3))
                body = body[:m.start()] + "if ret := %s; ret != &%s {\n\t\t\t\treturn Rep{Sys: \"note\", Note: \"%s returned a pointer that is not its receiver: chained calls act on another object\"}\n\t\t\t}\n\t\t\treturn %s(&%s)" % (
                    call, m.group(1), m.group(2), m.group(4), m.group(5))
            ops.append('\t\t{Name: "%s", Sem: "%s", In: []string{%s}, Out: "%s", NScalars: %d, F: func(in []Rep, sc []*big.Int) Rep {\n%s\n\t\t}},' % (
                name, sem, ", ".join('"%s"' % i for i in ins), out, nsc, body))
        # affine ops
        op("Affine.Add", "add", ["aff", "aff"], "aff", 0, "\t\t\ta, b := aff(in[0]), aff(in[1]); var r %s; r.Add(&a, &b); return repAff(&r)" % A)
        op("Affine.Sub", "sub", ["aff", "aff"], "aff", 0, "\t\t\ta, b := aff(in[0]), aff(in[1]); var r %s; r.Sub(&a, &b); return repAff(&r)" % A)
        if feat["affDouble"]:
            op("Affine.Double", "dbl", ["aff"], "aff", 0, "\t\t\ta := aff(in[0]); var r %s; r.Double(&a); return repAff(&r)" % A)
        op("Affine.Neg", "neg", ["aff"], "aff", 0, "\t\t\ta := aff(in[0]); var r %s; r.Neg(&a); return repAff(&r)" % A)
        op("Affine.FromJacobian", "id", ["jac"], "aff", 0, "\t\t\ta := jac(in[0]); var r %s; r.FromJacobian(&a); return repAff(&r)" % A)
        op("Affine.ScalarMultiplication", "smul", ["aff"], "aff", 1, "\t\t\ta := aff(in[0]); var r %s; r.ScalarMultiplication(&a, sc[0]); return repAff(&r)" % A)
        if feat["smBaseAff"]:
            op("Affine.ScalarMultiplicationBase", "smulbase", [], "aff", 1, "\t\t\tvar r %s; r.ScalarMultiplicationBase(sc[0]); return repAff(&r)" % A)
        op("Affine.IsInfinity", "isinf", ["aff"], "bool", 0, "\t\t\ta := aff(in[0]); return repBool(a.IsInfinity())")
        op("Affine.IsOnCurve", "oncurve", ["aff"], "bool", 0, "\t\t\ta := aff(in[0]); return repBool(a.IsOnCurve())")
        op("Affine.IsInSubGroup", "insubgroup", ["aff"], "bool", 0, "\t\t\ta := aff(in[0]); return repBool(a.IsInSubGroup())")
        op("Affine.Equal", "equal", ["aff", "aff"], "bool", 0, "\t\t\ta, b := aff(in[0]), aff(in[1]); return repBool(a.Equal(&b))")
        op("Affine.Add/inplace", "add", ["aff", "aff"], "aff", 0, "\t\t\ta, b := aff(in[0]), aff(in[1]); a.Add(&a, &b); return repAff(&a)")
        op("Affine.Sub/inplace", "sub", ["aff", "aff"], "aff", 0, "\t\t\ta, b := aff(in[0]), aff(in[1]); a.Sub(&a, &b); return repAff(&a)")
        op("Jac.Double/inplace", "dbl", ["jac"], "jac", 0, "\t\t\ta := jac(in[0]); a.Double(&a); return repJac(&a)")
        op("Jac.Neg/inplace", "neg", ["jac"], "jac", 0, "\t\t\ta := jac(in[0]); a.Neg(&a); return repJac(&a)")
        # jacobian ops
        op("Jac.AddAssign", "add", ["jac", "jac"], "jac", 0, "\t\t\ta, b := jac(in[0]), jac(in[1]); a.AddAssign(&b); return repJac(&a)")
        op("Jac.SubAssign", "sub", ["jac", "jac"], "jac", 0, "\t\t\ta, b := jac(in[0]), jac(in[1]); a.SubAssign(&b); return repJac(&a)")
        op("Jac.AddMixed", "add", ["jac", "aff"], "jac", 0, "\t\t\ta, b := jac(in[0]), aff(in[1]); a.AddMixed(&b); return repJac(&a)")
        if feat["doubleMixed"]:
            op("Jac.DoubleMixed", "dbl", ["aff"], "jac", 0, "\t\t\ta := aff(in[0]); var r %s; r.DoubleMixed(&a); return repJac(&r)" % J)
        op("Jac.Double", "dbl", ["jac"], "jac", 0, "\t\t\ta := jac(in[0]); var r %s; r.Double(&a); return repJac(&r)" % J)
        op("Jac.DoubleAssign", "dbl", ["jac"], "jac", 0, "\t\t\ta := jac(in[0]); a.DoubleAssign(); return repJac(&a)")
        op("Jac.Neg", "neg", ["jac"], "jac", 0, "\t\t\ta := jac(in[0]); var r %s; r.Neg(&a); return repJac(&r)" % J)
        op("Jac.FromAffine", "id", ["aff"], "jac", 0, "\t\t\ta := aff(in[0]); var r %s; r.FromAffine(&a); return repJac(&r)" % J)
        op("Jac.Set", "id", ["jac"], "jac", 0, "\t\t\ta := jac(in[0]); var r %s; r.Set(&a); return repJac(&r)" % J)
        op("Jac.Equal", "equal", ["jac", "jac"], "bool", 0, "\t\t\ta, b := jac(in[0]), jac(in[1]); return repBool(a.Equal(&b))")
        op("Jac.IsOnCurve", "oncurve", ["jac"], "bool", 0, "\t\t\ta := jac(in[0]); return repBool(a.IsOnCurve())")
        op("Jac.IsInSubGroup", "insubgroup", ["jac"], "bool", 0, "\t\t\ta := jac(in[0]); return repBool(a.IsInSubGroup())")
        op("Jac.ScalarMultiplication", "smul", ["jac"], "jac", 1, "\t\t\ta := jac(in[0]); var r %s; r.ScalarMultiplication(&a, sc[0]); return repJac(&r)" % J)
        op("Jac.ScalarMultiplication/inplace", "smul", ["jac"], "jac", 1, "\t\t\ta := jac(in[0]); a.ScalarMultiplication(&a, sc[0]); return repJac(&a)")
        op("Affine.ScalarMultiplication/inplace", "smul", ["aff"], "aff", 1, "\t\t\ta := aff(in[0]); a.ScalarMultiplication(&a, sc[0]); return repAff(&a)")
        if feat["smBaseJac"]:
            op("Jac.ScalarMultiplicationBase", "smulbase", [], "jac", 1, "\t\t\tvar r %s; r.ScalarMultiplicationBase(sc[0]); return repJac(&r)" % J)
        if feat["windowed"]:
            op("Jac.mulWindowed", "smul", ["jac"], "jac", 1, "\t\t\ta := jac(in[0]); var r %s; r.VerifMulWindowed(&a, sc[0]); return repJac(&r)" % J)
        if feat["glv"]:
            op("Jac.mulGLV", "smul", ["jac"], "jac", 1, "\t\t\ta := jac(in[0]); var r %s; r.VerifMulGLV(&a, sc[0]); return repJac(&r)" % J)
        if feat["jointAff"]:
            op("Jac.JointScalarMultiplication", "jsmul", ["aff", "aff"], "jac", 2, "\t\t\ta, b := aff(in[0]), aff(in[1]); var r %s; r.JointScalarMultiplication(&a, &b, sc[0], sc[1]); return repJac(&r)" % J)
        if feat["jointJac"]:
            op("Jac.JointScalarMultiplication", "jsmul", ["jac", "jac"], "jac", 2, "\t\t\ta, b := jac(in[0]), jac(in[1]); var r %s; r.JointScalarMultiplication(&a, &b, sc[0], sc[1]); return repJac(&r)" % J)
        if feat["jointJac"]:
            op("Jac.JointScalarMultiplication/inplace1", "jsmul", ["jac", "jac"], "jac", 2, "\t\t\ta, b := jac(in[0]), jac(in[1]); a.JointScalarMultiplication(&a, &b, sc[0], sc[1]); return repJac(&a)")
            op("Jac.JointScalarMultiplication/inplace2", "jsmul", ["jac", "jac"], "jac", 2, "\t\t\ta, b := jac(in[0]), jac(in[1]); b.JointScalarMultiplication(&a, &b, sc[0], sc[1]); return repJac(&b)")
        if feat["jointBase"]:
            op("Jac.JointScalarMultiplicationBase", "jsmulbase", ["aff"], "jac", 2, "\t\t\ta := aff(in[0]); var r %s; r.JointScalarMultiplicationBase(&a, sc[0], sc[1]); return repJac(&r)" % J)
        if feat["clearCof"]:
            op("Jac.ClearCofactor", "clearcofactor", ["jac"], "jac", 0, "\t\t\ta := jac(in[0]); var r %s; r.ClearCofactor(&a); return repJac(&r)" % J)
        # extended jacobian (buckets)
        op("ext.add", "add", ["ext", "ext"], "ext", 0, "\t\t\ta, b := ext(in[0]), ext(in[1]); curve.Verif%sExtOp(\"add\", &a, &b, nil); return repExt(&a)" % G)
        op("ext.double", "dbl", ["ext"], "ext", 0, "\t\t\ta := ext(in[0]); var r %s; curve.Verif%sExtOp(\"double\", &r, &a, nil); return repExt(&r)" % (X, G))
        op("ext.addMixed", "add", ["ext", "aff"], "ext", 0, "\t\t\ta, b := ext(in[0]), aff(in[1]); curve.Verif%sExtOp(\"addMixed\", &a, nil, &b); return repExt(&a)" % G)
        op("ext.subMixed", "sub", ["ext", "aff"], "ext", 0, "\t\t\ta, b := ext(in[0]), aff(in[1]); curve.Verif%sExtOp(\"subMixed\", &a, nil, &b); return repExt(&a)" % G)
        op("ext.doubleMixed", "dbl", ["aff"], "ext", 0, "\t\t\tb := aff(in[0]); var r %s; curve.Verif%sExtOp(\"doubleMixed\", &r, nil, &b); return repExt(&r)" % (X, G))
        op("ext.doubleNegMixed", "dblneg", ["aff"], "ext", 0, "\t\t\tb := aff(in[0]); var r %s; curve.Verif%sExtOp(\"doubleNegMixed\", &r, nil, &b); return repExt(&r)" % (X, G))
        op("Affine.fromJacExtended", "id", ["ext"], "aff", 0, "\t\t\ta := ext(in[0]); var r %s; curve.Verif%sAffineFromExt(&r, &a); return repAff(&r)" % (A, G))
        op("Jac.fromJacExtended", "id", ["ext"], "jac", 0, "\t\t\ta := ext(in[0]); var r %s; curve.Verif%sJacFromExt(&r, &a); return repJac(&r)" % (J, G))
        if feat["unsafeFromExt"]:
            op("Jac.unsafeFromJacExtended", "id-noninf", ["ext"], "jac", 0, "\t\t\ta := ext(in[0]); var r %s; curve.Verif%sJacUnsafeFromExt(&r, &a); return repJac(&r)" % (J, G))
        extra = ""
        if feat["batchSM"]:
            extra += '''
	g.BatchScalarMul = func(base Rep, scalars []*big.Int) []Rep {
		b := aff(base)
		s := make([]fr.Element, len(scalars))
		for i := range s {
			s[i].SetBigInt(scalars[i])
		}
		res := curve.BatchScalarMultiplication%(G)s(&b, s)
		out := make([]Rep, len(res))
		for i := range res {
			out[i] = repAff(&res[i])
		}
		return out
	}''' % dict(G=G)
        if feat["batchJ2A"]:
            extra += '''
	g.BatchJacToAff = func(pts []Rep) []Rep {
		in := make([]%(J)s, len(pts))
		for i := range pts {
			in[i] = jac(pts[i])
		}
		res := curve.BatchJacobianToAffine%(G)s(in)
		out := make([]Rep, len(res))
		for i := range res {
			out[i] = repAff(&res[i])
		}
		return out
	}''' % dict(G=G, J=J)
        if feat["multiexp"]:
            msrc = open(os.path.join(REPO, "ecc", cdir, "multiexp.go")).read()
            wl = re.findall(r"implementedCs := \[\]uint64\{([^}]*)\}", msrc)
            wins = wl[0] if G == "G1" else wl[-1]
            extra += '''
	var msmPool []%(A)s
	g.FrBits = fr.Bits
	g.MSMWindows = []uint64{%(wins)s}
	g.MSMSetPool = func(pool []Rep) {
		msmPool = make([]%(A)s, len(pool))
		for i := range pool {
			msmPool[i] = aff(pool[i])
		}
	}
	build := func(idx []int, scalars []*big.Int) ([]%(A)s, []fr.Element) {
		pts := make([]%(A)s, len(idx))
		for i, j := range idx {
			pts[i] = msmPool[j]
		}
		sc := make([]fr.Element, len(scalars))
		for i := range sc {
			sc[i].SetBigInt(scalars[i])
		}
		return pts, sc
	}
	g.MultiExp = func(idx []int, scalars []*big.Int, nbTasks int, variant string) (Rep, error) {
		pts, sc := build(idx, scalars)
		keepP := append([]%(A)s(nil), pts...)
		keepS := append([]fr.Element(nil), sc...)
		var out Rep
		var err error
		// every other call the receiver already holds a point (an accumulator used again): the result replaces it
		used := msmCalls.Add(1)%%2 == 0
		if variant == "aff" {
			var r %(A)s
			if used {
				r = gen
			}
			_, err = r.MultiExp(pts, sc, ecc.MultiExpConfig{NbTasks: nbTasks})
			out = repAff(&r)
		} else {
			var r %(J)s
			if used {
				r.FromAffine(&gen)
			}
			_, err = r.MultiExp(pts, sc, ecc.MultiExpConfig{NbTasks: nbTasks})
			out = repJac(&r)
		}
		for i := range pts {
			if pts[i] != keepP[i] {
				return out, ErrInputModified
			}
		}
		for i := range sc {
			if sc[i] != keepS[i] {
				return out, ErrInputModified
			}
		}
		return out, err
	}
	g.Fold = func(idx []int, coeff *big.Int, nbTasks int, variant string) (Rep, error) {
		pts, _ := build(idx, nil)
		var cf fr.Element
		cf.SetBigInt(coeff)
		used := msmCalls.Add(1)%%2 == 0
		if variant == "aff" {
			var r %(A)s
			if used {
				r = gen
			}
			_, err := r.Fold(pts, cf, ecc.MultiExpConfig{NbTasks: nbTasks})
			return repAff(&r), err
		}
		var r %(J)s
		if used {
			r.FromAffine(&gen)
		}
		_, err := r.Fold(pts, cf, ecc.MultiExpConfig{NbTasks: nbTasks})
		return repJac(&r), err
	}
	g.InnerMsm = func(c uint64, idx []int, scalars []*big.Int, nbTasks int) Rep {
		pts, sc := build(idx, scalars)
		r := curve.VerifInnerMsm%(G)s(c, pts, sc, nbTasks)
		return repJac(&r)
	}''' % dict(G=G, A=A, J=J, wins=wins)
            if G == "G1":
                extra += '''
	g.PartitionScalars = func(scalars []*big.Int, c uint64, nbTasks int) []uint16 {
		sc := make([]fr.Element, len(scalars))
		for i := range sc {
			sc[i].SetBigInt(scalars[i])
		}
		return curve.VerifPartitionScalars(sc, c, nbTasks)
	}'''
        gen_lines = "_, _, gen, _ := curve.Generators()" if len(groups) == 2 and G == "G1" else ("_, _, _, gen := curve.Generators()" if G == "G2" else "_, gen := curve.Generators()")
        code = '''// Code generated by /verif/tools/gengroups.py. DO NOT EDIT.

package groups

import (
	"math/big"

	"%(mod)s/ecc"
	curve "%(mod)s/ecc/%(cdir)s"
	"%(mod)s/ecc/%(cdir)s/fp"
	"%(mod)s/ecc/%(cdir)s/fr"

	"verif/harness/oracle/ofield"
)

var _ fp.Element
var _ fr.Element
var _ ecc.MultiExpConfig

// %(fnname)s is the adapter for ecc/%(cdir)s %(G)s.
func %(fnname)s() *Group {
	toEl := %(toEl)s
	fromEl := %(fromEl)s
	aff := func(r Rep) (p %(A)s) { p.X, p.Y = fromEl(r.C[0]), fromEl(r.C[1]); return }
	jac := func(r Rep) (p %(J)s) { p.X, p.Y, p.Z = fromEl(r.C[0]), fromEl(r.C[1]), fromEl(r.C[2]); return }
	ext := func(r Rep) (p %(X)s) {
		p.X, p.Y, p.ZZ, p.ZZZ = fromEl(r.C[0]), fromEl(r.C[1]), fromEl(r.C[2]), fromEl(r.C[3])
		return
	}
	repAff := func(p *%(A)s) Rep { return Rep{Sys: "aff", C: []ofield.El{toEl(&p.X), toEl(&p.Y)}} }
	repJac := func(p *%(J)s) Rep { return Rep{Sys: "jac", C: []ofield.El{toEl(&p.X), toEl(&p.Y), toEl(&p.Z)}} }
	repExt := func(p *%(X)s) Rep {
		return Rep{Sys: "ext", C: []ofield.El{toEl(&p.X), toEl(&p.Y), toEl(&p.ZZ), toEl(&p.ZZZ)}}
	}
	_, _, _ = ext, repExt, jac
	%(gen_lines)s
	a, b := curve.CurveCoefficients()
	g := &Group{
		Name: "%(cdir)s/%(G)s", Curve: "%(cdir)s", Which: "%(G)s", CoordKind: "%(kind)s",
		P: fp.Modulus(), R: fr.Modulus(),
		Gen: repAff(&gen), A1: a.BigInt(new(big.Int)), B1: b.BigInt(new(big.Int)),
	}
	g.Lib = func(r Rep) any {
		switch r.Sys {
		case "aff":
			p := aff(r)
			return &p
		case "jac":
			p := jac(r)
			return &p
		case "ext":
			p := ext(r)
			return &p
		}
		panic("bad system")
	}
	g.FromLib = func(p any) Rep {
		switch t := p.(type) {
		case *%(A)s:
			return repAff(t)
		case *%(J)s:
			return repJac(t)
		case *%(X)s:
			return repExt(t)
		}
		panic("bad type")
	}
	g.Ops = []Op{
%(ops)s
	}%(extra)s
	return g
}
''' % dict(mod=MOD, cdir=cdir, fnname=fnname, G=G, toEl=toEl, fromEl=fromEl, A=A, J=J, X=X, kind=kind,
           ops="\n".join(ops), extra=extra, gen_lines=gen_lines)
        open(os.path.join(OUT, "zz_%s.go" % name), "w").write(code)
    if "--shims" in sys.argv:
        imp = ("\n" + "".join('\t"%s"\n' % i for i in sorted(imports))) if imports else ""
        open(os.path.join(REPO, "ecc", cdir, "zz_verif_shim_points.go"), "w").write(shim.replace("@IMPORTS@", imp))

reg = "\n".join('\t{"%s", %s},' % (n, f) for n, f, _ in names)
open(os.path.join(OUT, "zz_all.go"), "w").write('''// Code generated by /verif/tools/gengroups.py. DO NOT EDIT.

package groups

// All lists every short-Weierstrass group of the library.
var All = []struct {
	Name string
	New  func() *Group
}{
%s
}
''' % reg)
print("generated", len(names), "groups")
