#!/bin/bash
# usage: confirm_mut.sh <outdir (containing patch.diff + demo)> <demo file> <dest path in repo> <go test cmd for demo> <existing-test pkgs...>
# Confirms in a scratch worktree: patch applies, builds, existing tests of given pkgs pass, demo fails with / passes without.
export GOFLAGS=-mod=mod GOPROXY=off GOSUMDB=off GOTOOLCHAIN=local
OUT=$1; DEMO=$2; DEST=$3; DEMOCMD=$4; shift 4; PKGS="$@"
W=/tmp/confirm-$$
git -C /repo worktree add --detach $W HEAD -q || exit 9
cd $W
mkdir -p $(dirname $DEST); cp $OUT/$DEMO $DEST
echo "== demo WITHOUT change"; eval "$DEMOCMD" > /tmp/confirm-$$.a 2>&1; a=$?; tail -3 /tmp/confirm-$$.a
git apply $OUT/patch.diff || { echo "PATCH FAILS"; }
echo "== build"; go build ./... 2>&1 | tail -3; b=${PIPESTATUS[0]}
echo "== demo WITH change"; eval "$DEMOCMD" > /tmp/confirm-$$.b 2>&1; c=$?; tail -5 /tmp/confirm-$$.b | cut -c1-300
rm -f $DEST
echo "== existing tests with change: $PKGS"; go test -count=1 -short $PKGS 2>&1 | tail -8; t=${PIPESTATUS[0]}
cd /; git -C /repo worktree remove --force $W; rm -f /tmp/confirm-$$.*
echo "RESULT without=$a build=$b with=$c tests=$t  (want 0 0 nonzero 0)"
