#!/usr/bin/env python3
"""keepmut.py <srcdir> <seeded-id> <property> <needs> <ran> <caught-by>: store a confirmed seeded change under /verif/seeded/<id>/"""
import sys, os, shutil, json
src, sid, prop, needs, ran, caught = sys.argv[1:7]
d = "/verif/seeded/" + sid
os.makedirs(d, exist_ok=True)
for f in os.listdir(src):
    p = os.path.join(src, f)
    if os.path.isfile(p):
        shutil.copy(p, d)
    elif os.path.isdir(p):
        shutil.copytree(p, os.path.join(d, f), dirs_exist_ok=True)
json.dump({"id": sid, "breaks_property": prop, "needs_to_manifest": needs, "confirmed_by": ran, "detected_by": caught},
          open(os.path.join(d, "meta.json"), "w"), indent=1)
print("kept", d)
