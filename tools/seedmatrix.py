#!/usr/bin/env python3
"""prints the seeded-change detection matrix (markdown) from /verif/seeded/*/meta.json"""
import json, glob, os
rows = []
for d in sorted(glob.glob('/verif/seeded/C*-mut*')):
    m = json.load(open(os.path.join(d, 'meta.json')))
    title = ''
    n = os.path.join(d, 'notes.md')
    if os.path.exists(n):
        for l in open(n):
            if l.startswith('#'):
                title = l.lstrip('# ').strip(); break
    rows.append((m['id'], m['breaks_property'], title, m['needs_to_manifest'], m['detected_by']))
print("| id | change | needs | caught by |\n|---|---|---|---|")
for r in rows:
    print("| %s | %s | %s | %s |" % (r[0], r[2].replace('|', '/')[:160], r[3].replace('|', '/')[:200], r[4].replace('|', '/')[:220]))
