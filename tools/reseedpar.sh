#!/bin/bash
# usage: reseedpar.sh [streams] — tools/reseed.sh over all stored seeded changes, in parallel streams (every run has
# its own scratch worktree and build directory). Result lines go to seeded/RESEED.log.
cd /verif
N=${1:-6}
ls -d seeded/C*-mut* | sort > /tmp/reseed-all.txt
for k in $(seq 0 $((N-1))); do
  ( awk -v n=$N -v k=$k 'NR%n==k' /tmp/reseed-all.txt | while read d; do tools/reseed.sh "$d"; done > /tmp/reseed-$k.log 2>&1 ) &
done
wait
{ echo "# reseed of $(wc -l < /tmp/reseed-all.txt) stored changes against /repo $(git -C /repo rev-parse --short HEAD), /verif $(git rev-parse --short HEAD)"; cat /tmp/reseed-[0-9]*.log | sort; } > seeded/RESEED.log
grep -c caught seeded/RESEED.log; grep -v "caught\|^#" seeded/RESEED.log
