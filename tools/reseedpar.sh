#!/bin/bash
# usage: reseedpar.sh — tools/reseed.sh over all stored seeded changes, four properties at a time (properties that
# share a harness binary stay in the same stream). Result lines go to seeded/RESEED.log.
cd /verif
run() { for p in "$@"; do tools/reseed.sh "seeded/$p-mut*"; done; }
( run C01 C05 C09 C13 C17 > /tmp/reseed-1.log 2>&1 ) &
( run C02 C18 C06 C10 C14 > /tmp/reseed-2.log 2>&1 ) &
( run C03 C07 C11 C15 C19 > /tmp/reseed-3.log 2>&1 ) &
( run C04 C08 C12 C16 C20 > /tmp/reseed-4.log 2>&1 ) &
wait
{ echo "# reseed of $(ls -d seeded/C*-mut* | wc -l) stored changes against /repo $(git -C /repo rev-parse --short HEAD), /verif $(git rev-parse --short HEAD)"; cat /tmp/reseed-[1-4].log | sort; } > seeded/RESEED.log
grep -c caught seeded/RESEED.log; grep -v caught seeded/RESEED.log
