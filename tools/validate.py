#!/opt/veriftools/pyvenv/bin/python
import json, sys, glob, jsonschema
man = json.load(open('/verif/MANIFEST.json'))
jsonschema.validate(man, json.load(open('/root/.vp/MANIFEST.schema.json')))
es = json.load(open('/root/.vp/EVIDENCE.schema.json'))
for f in sorted(glob.glob('/verif/evidence/C*.json')):
    ev = json.load(open(f)); jsonschema.validate(ev, es)
    print(f, 'ok', ev['tier'], ev['coverage']['evaluations'], ev['coverage']['distinct_nontrivial'], 'viol', ev.get('violations'))
print('manifest ok; claimed', len(man['checks']))
