#!/usr/bin/env python3
"""Instantiates /verif/harness/cmd/c18/curve.go.tmpl for the 7 pairing curves."""
import os
D = "/verif/harness/cmd/c18"
t = open(os.path.join(D, "curve.go.tmpl")).read()
for c in ["bn254", "bls12-377", "bls12-381", "bls24-315", "bls24-317", "bw6-633", "bw6-761"]:
    fn = "".join(x.capitalize() for x in c.replace("-", "_").split("_"))
    open(os.path.join(D, "zz_curve_%s.go" % c.replace("-", "")), "w").write(t.replace("@CURVE@", c).replace("@FN@", fn))
print("ok")
