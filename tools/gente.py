#!/usr/bin/env python3
"""Generates /verif/harness/adapt/te/zz_<curve>.go adapters for the 8 twisted-Edwards packages."""
import os
OUT = "/verif/harness/adapt/te"
MOD = "github.com/consensys/gnark-crypto"
curves = [("bn254", "ecc/bn254/twistededwards", "ecc/bn254/fr"), ("bls12-377", "ecc/bls12-377/twistededwards", "ecc/bls12-377/fr"),
          ("bls12-381", "ecc/bls12-381/twistededwards", "ecc/bls12-381/fr"), ("bandersnatch", "ecc/bls12-381/bandersnatch", "ecc/bls12-381/fr"),
          ("bls24-315", "ecc/bls24-315/twistededwards", "ecc/bls24-315/fr"), ("bls24-317", "ecc/bls24-317/twistededwards", "ecc/bls24-317/fr"),
          ("bw6-633", "ecc/bw6-633/twistededwards", "ecc/bw6-633/fr"), ("bw6-761", "ecc/bw6-761/twistededwards", "ecc/bw6-761/fr")]
reg = []
for name, path, frp in curves:
    ops = []
    def op(n, sem, ins, out, nsc, body):
        ops.append('\t\t{Name: "%s", Sem: "%s", In: []string{%s}, Out: "%s", NScalars: %d, F: func(in []Rep, sc []*big.Int) Rep {\n\t\t\t%s\n\t\t}},' % (
            n, sem, ", ".join('"%s"' % i for i in ins), out, nsc, body))
    A, P, E = "te.PointAffine", "te.PointProj", "te.PointExtended"
    op("Affine.Add", "add", ["aff", "aff"], "aff", 0, "a, b := aff(in[0]), aff(in[1]); var r %s; r.Add(&a, &b); return repAff(&r)" % A)
    op("Affine.Double", "dbl", ["aff"], "aff", 0, "a := aff(in[0]); var r %s; r.Double(&a); return repAff(&r)" % A)
    op("Affine.Neg", "neg", ["aff"], "aff", 0, "a := aff(in[0]); var r %s; r.Neg(&a); return repAff(&r)" % A)
    op("Affine.FromProj", "id", ["proj"], "aff", 0, "a := proj(in[0]); var r %s; r.FromProj(&a); return repAff(&r)" % A)
    op("Affine.FromExtended", "id", ["ext"], "aff", 0, "a := ext(in[0]); var r %s; r.FromExtended(&a); return repAff(&r)" % A)
    op("Affine.IsOnCurve", "oncurve", ["aff"], "bool", 0, "a := aff(in[0]); return repBool(a.IsOnCurve())")
    op("Affine.IsZero", "iszero", ["aff"], "bool", 0, "a := aff(in[0]); return repBool(a.IsZero())")
    op("Affine.Equal", "equal", ["aff", "aff"], "bool", 0, "a, b := aff(in[0]), aff(in[1]); return repBool(a.Equal(&b))")
    op("Affine.ScalarMultiplication", "smul", ["aff"], "aff", 1, "a := aff(in[0]); var r %s; r.ScalarMultiplication(&a, sc[0]); return repAff(&r)" % A)
    op("Proj.Add", "add", ["proj", "proj"], "proj", 0, "a, b := proj(in[0]), proj(in[1]); var r %s; r.Add(&a, &b); return repProj(&r)" % P)
    op("Proj.MixedAdd", "add", ["proj", "aff"], "proj", 0, "a, b := proj(in[0]), aff(in[1]); var r %s; r.MixedAdd(&a, &b); return repProj(&r)" % P)
    op("Proj.Double", "dbl", ["proj"], "proj", 0, "a := proj(in[0]); var r %s; r.Double(&a); return repProj(&r)" % P)
    op("Proj.Neg", "neg", ["proj"], "proj", 0, "a := proj(in[0]); var r %s; r.Neg(&a); return repProj(&r)" % P)
    op("Proj.FromAffine", "id", ["aff"], "proj", 0, "a := aff(in[0]); var r %s; r.FromAffine(&a); return repProj(&r)" % P)
    op("Proj.Set", "id", ["proj"], "proj", 0, "a := proj(in[0]); var r %s; r.Set(&a); return repProj(&r)" % P)
    op("Proj.Equal", "equal", ["proj", "proj"], "bool", 0, "a, b := proj(in[0]), proj(in[1]); return repBool(a.Equal(&b))")
    op("Proj.IsZero", "iszero", ["proj"], "bool", 0, "a := proj(in[0]); return repBool(a.IsZero())")
    op("Proj.ScalarMultiplication", "smul", ["proj"], "proj", 1, "a := proj(in[0]); var r %s; r.ScalarMultiplication(&a, sc[0]); return repProj(&r)" % P)
    op("Extended.Add", "add", ["ext", "ext"], "ext", 0, "a, b := ext(in[0]), ext(in[1]); var r %s; r.Add(&a, &b); return repExt(&r)" % E)
    op("Extended.MixedAdd", "add", ["ext", "aff"], "ext", 0, "a, b := ext(in[0]), aff(in[1]); var r %s; r.MixedAdd(&a, &b); return repExt(&r)" % E)
    op("Extended.Double", "dbl", ["ext"], "ext", 0, "a := ext(in[0]); var r %s; r.Double(&a); return repExt(&r)" % E)
    op("Extended.MixedDouble", "dbl", ["ext1"], "ext", 0, "a := ext(in[0]); var r %s; r.MixedDouble(&a); return repExt(&r)" % E)
    op("Extended.Neg", "neg", ["ext"], "ext", 0, "a := ext(in[0]); var r %s; r.Neg(&a); return repExt(&r)" % E)
    op("Extended.FromAffine", "id", ["aff"], "ext", 0, "a := aff(in[0]); var r %s; r.FromAffine(&a); return repExt(&r)" % E)
    op("Extended.Set", "id", ["ext"], "ext", 0, "a := ext(in[0]); var r %s; r.Set(&a); return repExt(&r)" % E)
    op("Extended.Equal", "equal", ["ext", "ext"], "bool", 0, "a, b := ext(in[0]), ext(in[1]); return repBool(a.Equal(&b))")
    op("Extended.IsZero", "iszero", ["ext"], "bool", 0, "a := ext(in[0]); return repBool(a.IsZero())")
    op("Extended.ScalarMultiplication", "smul", ["ext"], "ext", 1, "a := ext(in[0]); var r %s; r.ScalarMultiplication(&a, sc[0]); return repExt(&r)" % E)
    # in-place forms (receiver is the first operand), the ordinary accumulator pattern
    op("Affine.Add/inplace", "add", ["aff", "aff"], "aff", 0, "a, b := aff(in[0]), aff(in[1]); a.Add(&a, &b); return repAff(&a)")
    op("Affine.Double/inplace", "dbl", ["aff"], "aff", 0, "a := aff(in[0]); a.Double(&a); return repAff(&a)")
    op("Proj.Add/inplace", "add", ["proj", "proj"], "proj", 0, "a, b := proj(in[0]), proj(in[1]); a.Add(&a, &b); return repProj(&a)")
    op("Proj.MixedAdd/inplace", "add", ["proj", "aff"], "proj", 0, "a, b := proj(in[0]), aff(in[1]); a.MixedAdd(&a, &b); return repProj(&a)")
    op("Proj.Double/inplace", "dbl", ["proj"], "proj", 0, "a := proj(in[0]); a.Double(&a); return repProj(&a)")
    op("Extended.Add/inplace", "add", ["ext", "ext"], "ext", 0, "a, b := ext(in[0]), ext(in[1]); a.Add(&a, &b); return repExt(&a)")
    op("Extended.MixedAdd/inplace", "add", ["ext", "aff"], "ext", 0, "a, b := ext(in[0]), aff(in[1]); a.MixedAdd(&a, &b); return repExt(&a)")
    op("Extended.Double/inplace", "dbl", ["ext"], "ext", 0, "a := ext(in[0]); a.Double(&a); return repExt(&a)")
    fn = "".join(x.capitalize() for x in name.replace("-", "_").split("_"))
    code = '''// Code generated by /verif/tools/gente.py. DO NOT EDIT.

package te

import (
	"fmt"
	"math/big"

	fr "%(mod)s/%(frp)s"
	te "%(mod)s/%(path)s"

	"verif/harness/oracle/ofield"
)

// %(fn)s is the adapter for %(path)s.
func %(fn)s() *Curve {
	toEl := func(e *fr.Element) ofield.El { return ofield.El{e.BigInt(new(big.Int))} }
	fromEl := func(v ofield.El) (e fr.Element) { e.SetBigInt(v[0]); return }
	aff := func(r Rep) (p te.PointAffine) { p.X, p.Y = fromEl(r.C[0]), fromEl(r.C[1]); return }
	proj := func(r Rep) (p te.PointProj) { p.X, p.Y, p.Z = fromEl(r.C[0]), fromEl(r.C[1]), fromEl(r.C[2]); return }
	ext := func(r Rep) (p te.PointExtended) {
		p.X, p.Y, p.Z, p.T = fromEl(r.C[0]), fromEl(r.C[1]), fromEl(r.C[2]), fromEl(r.C[3])
		return
	}
	repAff := func(p *te.PointAffine) Rep { return Rep{Sys: "aff", C: []ofield.El{toEl(&p.X), toEl(&p.Y)}} }
	repProj := func(p *te.PointProj) Rep { return Rep{Sys: "proj", C: []ofield.El{toEl(&p.X), toEl(&p.Y), toEl(&p.Z)}} }
	repExt := func(p *te.PointExtended) Rep {
		return Rep{Sys: "ext", C: []ofield.El{toEl(&p.X), toEl(&p.Y), toEl(&p.Z), toEl(&p.T)}}
	}
	var g *Curve
	if ps, ok := Preset["%(path)s"]; ok {
		// constants supplied by the caller: the library's lazily initialised curve parameters are NOT touched, so that
		// the first operation of the process on this package can be observed (C18 first-use check)
		g = &Curve{Name: "%(path)s", Q: fr.Modulus(), Order: ps.Order, Cofactor: ps.Cofactor, A: ps.A, D: ps.D,
			Base: Rep{Sys: "aff", C: []ofield.El{{ps.BaseX}, {ps.BaseY}}}}
	} else {
		cp := te.GetEdwardsCurve()
		g = &Curve{
			Name: "%(path)s", Q: fr.Modulus(), Order: new(big.Int).Set(&cp.Order), Cofactor: cp.Cofactor.BigInt(new(big.Int)),
			A: cp.A.BigInt(new(big.Int)), D: cp.D.BigInt(new(big.Int)), Base: repAff(&cp.Base),
		}
	}
	// GetterPrivate: what a caller does, in place, to the parameters it was handed must not reach the package (the
	// order is a big.Int: a shallow copy shares its words). Run it last - if the parameters are shared the package is
	// left with a wrong order.
	g.GetterPrivate = func() error {
		before := te.GetEdwardsCurve()
		want := new(big.Int).Set(&before.Order)
		mine := te.GetEdwardsCurve()
		mine.Order.Sub(&mine.Order, big.NewInt(1))
		mine.Order.Rsh(&mine.Order, 1)
		mine.A.SetUint64(12345)
		mine.Base.X.SetUint64(7)
		after := te.GetEdwardsCurve()
		if after.Order.Cmp(want) != 0 || !after.A.Equal(&before.A) || !after.Base.Equal(&before.Base) {
			return fmt.Errorf("GetEdwardsCurve() returns order %%s after a caller halved the order of the value it had received (was %%s)", after.Order.String(), want.String())
		}
		return nil
	}
	g.Lib = func(r Rep) any {
		switch r.Sys {
		case "aff":
			p := aff(r)
			return &p
		case "proj":
			p := proj(r)
			return &p
		case "ext", "ext1":
			p := ext(r)
			return &p
		}
		panic("bad system")
	}
	g.FromLib = func(p any) Rep {
		switch t := p.(type) {
		case *te.PointAffine:
			return repAff(t)
		case *te.PointProj:
			return repProj(t)
		case *te.PointExtended:
			return repExt(t)
		}
		panic("bad type")
	}
	g.Ops = []Op{
%(ops)s
	}
	return g
}
''' % dict(mod=MOD, frp=frp, path=path, fn=fn, ops="\n".join(ops))
    open(os.path.join(OUT, "zz_%s.go" % name.replace("-", "")), "w").write(code)
    reg.append((path, fn))
open(os.path.join(OUT, "zz_all.go"), "w").write('''// Code generated by /verif/tools/gente.py. DO NOT EDIT.

package te

// All lists every twisted-Edwards package of the library.
var All = []struct {
	Name string
	New  func() *Curve
}{
%s
}
''' % "\n".join('\t{"%s", %s},' % r for r in reg))
print("generated", len(reg))
