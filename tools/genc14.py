#!/usr/bin/env python3
"""Generates /verif/harness/cmd/c14/zz_instances.go: per-package glue (closures over the concrete
mimc / poseidon2 / sis packages) for the C14 monitor. The documented parameters (S-box degree,
round numbers, seed tags) are NOT read from the library: they are the table below, taken from the
package documentation, and the monitor compares the library against them."""
MOD = "github.com/consensys/gnark-crypto"
# (dir, enum/seed tag, fields adapter, mimc (d, rounds), poseidon2 (d, t, rf, rp))
curves = [
    ("bn254", "BN254", "Bn254Fr", (5, 110), (5, 2, 6, 50)),
    ("bls12-377", "BLS12_377", "Bls12377Fr", (17, 62), (17, 2, 6, 26)),
    ("bls12-381", "BLS12_381", "Bls12381Fr", (5, 111), (5, 2, 6, 50)),
    ("bw6-761", "BW6_761", "Bw6761Fr", (5, 163), (5, 2, 6, 50)),
    ("bls24-315", "BLS24_315", "Bls24315Fr", (5, 109), (5, 2, 6, 50)),
    ("bls24-317", "BLS24_317", "Bls24317Fr", (7, 91), (7, 2, 6, 40)),
    ("bw6-633", "BW6_633", "Bw6633Fr", (5, 136), (5, 2, 6, 50)),
    ("grumpkin", "GRUMPKIN", "GrumpkinFr", (5, 110), (5, 2, 6, 50)),
]
small = [
    ("koalabear", "KOALABEAR", "Koalabear", (3, 16, 6, 21), True),
    ("babybear", "BABYBEAR", "Babybear", (7, 16, 8, 13), True),
    ("goldilocks", "GOLDILOCKS", "Goldilocks", (7, 8, 6, 17), False),
]
sis = [("field/koalabear", "koalabear", "Koalabear", "field/koalabear"), ("field/babybear", "babybear", "Babybear", "field/babybear"),
       ("field/goldilocks", "goldilocks", "Goldilocks", "field/goldilocks"), ("ecc/bls12-377/fr", "bls12377", "Bls12377Fr", "ecc/bls12-377/fr")]


def ident(s):
    return s.replace("-", "")


imports = []
body = []
for d, tag, ad, (md, mr), (pd, pt, prf, prp) in curves:
    i = ident(d)
    imports += ['fr_%s "%s/ecc/%s/fr"' % (i, MOD, d), 'mimc_%s "%s/ecc/%s/fr/mimc"' % (i, MOD, d),
                'p2_%s "%s/ecc/%s/fr/poseidon2"' % (i, MOD, d)]
    body.append('''
func init() {
	f := fields.%(ad)s()
	mimcInsts = append(mimcInsts, mkMimc(f, mimcInfo{pkg: "ecc/%(d)s/fr/mimc", id: ghash.MIMC_%(tag)s, d: %(md)d, rounds: %(mr)d, seed: "seed"}, mimcGlue{
		newPkg:    func() ghash.StateStorer { return mimc_%(i)s.NewMiMC() },
		newLE:     func() ghash.StateStorer { return mimc_%(i)s.NewMiMC(mimc_%(i)s.WithByteOrder(fr_%(i)s.LittleEndian)) },
		newBE:     func() ghash.StateStorer { return mimc_%(i)s.NewMiMC(mimc_%(i)s.WithByteOrder(fr_%(i)s.BigEndian)) },
		consts:    mimc_%(i)s.GetConstants,
		sum:       mimc_%(i)s.Sum,
		blockSize: mimc_%(i)s.BlockSize,
	}))
	p2Insts = append(p2Insts, mkP2(f, p2Info{pkg: "ecc/%(d)s/fr/poseidon2", id: ghash.POSEIDON2_%(tag)s, tag: "%(tag)s", d: %(pd)d, defT: %(pt)d, defRF: %(prf)d, defRP: %(prp)d, widths: []int{2, 3}, small: false}, p2Glue[fr_%(i)s.Element]{
		newPerm:     func(t, rf, rp int) permI[fr_%(i)s.Element] { return p2_%(i)s.NewPermutation(t, rf, rp) },
		newPermSeed: func(t, rf, rp int, seed string) permI[fr_%(i)s.Element] { return p2_%(i)s.NewPermutationWithSeed(t, rf, rp, seed) },
		roundKeys:   func(t, rf, rp int) [][]fr_%(i)s.Element { return p2_%(i)s.NewParameters(t, rf, rp).RoundKeys },
		roundKeysSeed: func(t, rf, rp int, seed string) [][]fr_%(i)s.Element { return p2_%(i)s.NewParametersWithSeed(t, rf, rp, seed).RoundKeys },
		paramString: func(t, rf, rp int) string { return p2_%(i)s.NewParameters(t, rf, rp).String() },
		defParams:   func() (int, int, int) { p := p2_%(i)s.GetDefaultParameters(); return p.Width, p.NbFullRounds, p.NbPartialRounds },
		degree:      p2_%(i)s.DegreeSBox,
		newMD:       p2_%(i)s.NewMerkleDamgardHasher,
	}))
}
''' % dict(d=d, tag=tag, ad=ad, md=md, mr=mr, pd=pd, pt=pt, prf=prf, prp=prp, i=i))

for d, tag, ad, (pd, pt, prf, prp), has1624 in small:
    i = d
    imports += ['fr_%s "%s/field/%s"' % (i, MOD, d), 'p2_%s "%s/field/%s/poseidon2"' % (i, MOD, d)]
    widths = "[]int{16, 24}" if has1624 else "[]int{8, 12}"
    x = ""
    if has1624:
        x = "\t\tperm16x24:   func(p permI[fr_%(i)s.Element], in *[24][16]fr_%(i)s.Element) { p.(*p2_%(i)s.Permutation).Permutation16x24(in) },\n" % dict(i=i)
    body.append('''
func init() {
	f := fields.%(ad)s()
	p2Insts = append(p2Insts, mkP2(f, p2Info{pkg: "field/%(d)s/poseidon2", id: ghash.POSEIDON2_%(tag)s, tag: "%(d)s", d: %(pd)d, defT: %(pt)d, defRF: %(prf)d, defRP: %(prp)d, widths: %(widths)s, small: true}, p2Glue[fr_%(i)s.Element]{
		newPerm:     func(t, rf, rp int) permI[fr_%(i)s.Element] { return p2_%(i)s.NewPermutation(t, rf, rp) },
		newPermSeed: func(t, rf, rp int, seed string) permI[fr_%(i)s.Element] { return p2_%(i)s.NewPermutationWithSeed(t, rf, rp, seed) },
		roundKeys:   func(t, rf, rp int) [][]fr_%(i)s.Element { return p2_%(i)s.NewParameters(t, rf, rp).RoundKeys },
		roundKeysSeed: func(t, rf, rp int, seed string) [][]fr_%(i)s.Element { return p2_%(i)s.NewParametersWithSeed(t, rf, rp, seed).RoundKeys },
		paramString: func(t, rf, rp int) string { return p2_%(i)s.NewParameters(t, rf, rp).String() },
		defParams:   func() (int, int, int) { p := p2_%(i)s.GetDefaultParameters(); return p.Width, p.NbFullRounds, p.NbPartialRounds },
		degree:      p2_%(i)s.DegreeSBox,
		newMD:       p2_%(i)s.NewMerkleDamgardHasher,
%(x)s	}))
}
''' % dict(d=d, tag=tag, ad=ad, pd=pd, pt=pt, prf=prf, prp=prp, i=i, widths=widths, x=x))

for path, i, ad, frpath in sis:
    fr = "fr_" + (i if not path.startswith("ecc") else "bls12377")
    imports.append('sis_%s "%s/%s/sis"' % (i, MOD, path))
    body.append('''
func init() {
	f := fields.%(ad)s()
	sisInsts = append(sisInsts, mkSis(f, "%(path)s/sis", func(seed int64, logTwoDegree, logTwoBound, maxNb int) (*sisH[%(fr)s.Element], error) {
		r, err := sis_%(i)s.NewRSis(seed, logTwoDegree, logTwoBound, maxNb)
		if err != nil {
			return nil, err
		}
		return &sisH[%(fr)s.Element]{
			hash:   r.Hash,
			a:      func() [][]%(fr)s.Element { return r.A },
			ag:     func() [][]%(fr)s.Element { return r.Ag },
			degree: func() int { return r.Degree },
			bound:  func() int { return r.LogTwoBound },
			limbs: func(v []%(fr)s.Element, limbBytes int) []uint64 {
				it := sis_%(i)s.NewLimbIterator(sis_%(i)s.NewVectorIterator(v), limbBytes)
				var out []uint64
				for {
					l, ok := it.NextLimb()
					if !ok {
						return out
					}
					out = append(out, uint64(l))
				}
			},
		}, nil
	}))
}
''' % dict(path=path, i=i, ad=ad, fr=fr))

imports = sorted(set(imports))
src = "// Code generated by /verif/tools/genc14.py. DO NOT EDIT.\n\n//go:build !c14all\n\npackage main\n\nimport (\n"
for im in imports:
    src += "\t" + im + "\n"
src += '\tghash "%s/hash"\n\n\t"verif/harness/adapt/fields"\n)\n' % MOD
src += "".join(body)
open("/verif/harness/cmd/c14/zz_instances.go", "w").write(src)
print("wrote zz_instances.go")
