#!/bin/bash
# usage: runall.sh [tier] [seed...]  — runs every claimed check at the given seeds, prints one line per run.
TIER=${1:-quick}; shift; SEEDS=${@:-1}
cd /verif
for s in $SEEDS; do
  for p in $(cat claimed.txt); do
    t0=$(date +%s)
    out=$(VERIF_SEED=$s ./check $p $TIER 2>&1); rc=$?
    t1=$(date +%s)
    echo "seed=$s $p rc=$rc $((t1-t0))s $(echo "$out" | grep -E '^(HELD|VIOLATION|INCONCLUSIVE)' | head -2 | tr '\n' ' ' | cut -c1-200)"
  done
done
