#!/usr/bin/env python3
"""mkround.py <N> [ids...]: writes /tmp/mut-<ID>r<N>-prompt.txt for a further round of independently seeded changes:
the template tools/mut-prompt.txt with the property text, plus the headings of the changes already stored for that
property (seeded/<ID>-mut*/notes.md), so that the new ones use other mechanisms."""
import sys, json, glob, os
n = sys.argv[1]
props = {}
for l in open('/verif/properties.jsonl'):
    d = json.loads(l); props[d['id']] = d
ids = sys.argv[2:] or sorted(props)
t = open('/verif/tools/mut-prompt.txt').read()
for i in ids:
    d = props[i]
    text = d['title'] + "\n\n" + d['statement'] + "\n\nQuantifier: " + d['quantifier']['text']
    p = t.replace('@ID@', '%sr%s' % (i, n)).replace('@PROP@', text)
    heads = []
    for f in sorted(glob.glob('/verif/seeded/%s-mut*/notes.md' % i)):
        h = open(f).readline().strip().lstrip('# ').strip()
        if h: heads.append(h)
    p += ("\n\nOther people already produced the following changes for the same property; pick different mechanisms, "
          "different entry points and, where possible, different instantiations (be creative: think of API contracts and "
          "documented error cases, size regimes and thresholds, rare branches, configuration options, multi-step call "
          "sequences on one object, argument layouts in memory, error paths, interactions between two functions that each "
          "look fine, lazily initialised state, values returned by getters, constants of one instantiation):\n")
    p += "".join(" - %s\n" % h for h in heads)
    open('/tmp/mut-%sr%s-prompt.txt' % (i, n), 'w').write(p)
    print(i, len(heads), "used mechanisms listed")
