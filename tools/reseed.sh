#!/bin/bash
# usage: reseed.sh [dir-glob] — re-runs every stored seeded change (seeded/<ID>-mutX/patch.diff) against the check of the
# property it breaks, on a scratch worktree of /repo HEAD. Prints one line per change: caught / MISSED / does-not-apply.
cd /verif
for d in ${1:-seeded/*}; do
  [ -f $d/patch.diff ] || continue
  p=$(python3 -c "import json;print(json.load(open('$d/meta.json'))['breaks_property'])")
  out=$(tools/trymut.sh $p $d/patch.diff quick 2>&1)
  if echo "$out" | grep -q "patch does not apply"; then r="DOES-NOT-APPLY"
  elif echo "$out" | grep -q "^rc=1" && echo "$out" | grep -q "^VIOLATION"; then r="caught"
  else r="MISSED ($(echo "$out" | grep ^rc=))"; fi
  echo "$(basename $d) $p $r"
done
