#!/bin/bash
# usage: roundtry.sh <N> [ids...] — runs the quick check of each property against both seeded changes of round N
# (/tmp/mut-<ID>r<N>-out/mutA|mutB/patch.diff) on scratch worktrees, four properties at a time (properties that share a
# harness binary stay in one stream); one log per change: /tmp/r<N>-one-<ID>-<mut>.log (rc=1 + FAIL keys = caught).
N=$1; shift
export GOFLAGS=-mod=mod GOPROXY=off GOSUMDB=off GOTOOLCHAIN=local
cd /verif
one() { p=$1; for m in mutA mutB; do
  [ -f /tmp/mut-${p}r$N-out/$m/patch.diff ] || continue
  tools/trymut.sh $p /tmp/mut-${p}r$N-out/$m/patch.diff 2>&1 | grep -E "^rc=|^FAIL|patch does not" | cut -c1-260 > /tmp/r$N-one-$p-$m.log 2>&1
done; }
want() { [ $# -eq 0 ] && return 0; for x in "$@"; do [ "$x" = "$P" ] && return 0; done; return 1; }
stream() { for P in $STREAM; do want "${SEL[@]}" && one $P; done; }
SEL=("$@")
for STREAM in "C01 C05 C09 C13 C17" "C02 C18 C06 C10 C14" "C03 C07 C11 C15 C19" "C04 C08 C12 C16 C20"; do ( stream ) & done
wait
for f in /tmp/r$N-one-*.log; do echo "$(basename $f .log | sed "s/r$N-one-//") $(head -1 $f) $(grep -m1 '^FAIL' $f | sed 's/FAIL key=//; s/ stage=\([a-z0-9-]*\).*/ [\1]/' | cut -c1-160)"; done
