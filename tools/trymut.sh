#!/bin/bash
# usage: trymut.sh <PROP> <patch.diff> [tier]  — applies a seeded change to /repo, runs the check, reverts.
P=$1; PATCH=$2; TIER=${3:-quick}
cd /repo || exit 9
if [ -n "$(git status --porcelain --untracked-files=no)" ]; then echo "repo dirty"; exit 9; fi
git apply "$PATCH" || { echo "patch does not apply"; exit 9; }
cd /verif && ./check $P $TIER > /tmp/trymut-$P.log 2>&1; rc=$?
cd /repo && git checkout -- . 
echo "rc=$rc"; grep -E "^(VIOLATION|INCONCLUSIVE|HELD)" /tmp/trymut-$P.log | head -5; grep -E "^FAIL" /tmp/trymut-$P.log | cut -c1-300 | head -3
