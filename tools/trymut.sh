#!/bin/bash
# usage: trymut.sh <PROP> <patch.diff> [tier] — runs the check of <PROP> against a scratch worktree of /repo
# (HEAD) with the seeded change applied; /repo itself and /verif/evidence are not touched.
P=$1; PATCH=$(readlink -f "$2"); TIER=${3:-quick}
W=/tmp/trymut-repo-$$
git -C /repo worktree add --detach $W HEAD -q || exit 9
( cd $W && git apply "$PATCH" ) || { echo "patch does not apply"; git -C /repo worktree remove --force $W; exit 9; }
mkdir -p /tmp/trymut-evid-$$
cd /verif && VERIF_REPO=$W VERIF_EVID=/tmp/trymut-evid-$$ ./check $P $TIER > /tmp/trymut-$P-$$.log 2>&1; rc=$?
git -C /repo worktree remove --force $W; rm -rf /tmp/trymut-evid-$$ /verif/.build-alt-$(echo $W | sed 's/[^A-Za-z0-9]/_/g')
echo "rc=$rc"; grep -E "^(VIOLATION|INCONCLUSIVE|HELD)" /tmp/trymut-$P-$$.log | head -5; grep -E "^FAIL" /tmp/trymut-$P-$$.log | cut -c1-300 | head -3
cp /tmp/trymut-$P-$$.log /tmp/trymut-$P.log; rm -f /tmp/trymut-$P-$$.log
