#!/usr/bin/env python3
"""Regenerates /verif/MANIFEST.json from stages.json (claimed checks) + properties.jsonl (everything else -> not_applicable).
The per-check level texts live in stages.json under "manifest"."""
import json, os, subprocess
V = os.path.dirname(os.path.dirname(os.path.abspath(__file__)))
stages = json.load(open(os.path.join(V, "stages.json")))
sd = os.path.join(V, "stages.d")
if os.path.isdir(sd):
    for fn in sorted(os.listdir(sd)):
        if fn.endswith(".json"):
            stages.update(json.load(open(os.path.join(sd, fn))))
props = [json.loads(l) for l in open(os.path.join(V, "properties.jsonl"))]
hooks = [l.split()[0] for l in open(os.path.join(V, "MANIFEST.hooks")) if l.strip() and not l.startswith("#")] if os.path.exists(os.path.join(V, "MANIFEST.hooks")) else []
claimed = set(open(os.path.join(V, "claimed.txt")).read().split())
checks, na = [], []
for p in props:
    pid = p["id"]
    st = stages.get(pid)
    if st and pid in claimed:
        m = st.get("manifest", {})
        checks.append({
            "property_id": pid,
            "quick_cmd": "./check %s quick" % pid,
            "thorough_cmd": "./check %s thorough" % pid,
            "evidence_file": "/verif/evidence/%s.json" % pid,
            "replay_cmd_template": "./check %s --replay {path}" % pid,
            "engine": "harness",
            "level_claimed": {"category": st.get("level", "exploration"), "text": m.get("text", st.get("rule", "")), "design_ref": "DESIGN.md section 4 (%s)" % pid},
            "level_note": m.get("note", "; ".join(st.get("assumptions", [])) or "oracle code in /verif/harness/oracle is trusted"),
            "technique": m.get("technique", "runtime monitoring: reference-model oracle over recorded executions"),
        })
    else:
        na.append({"property_id": pid, "reason": (st or {}).get("na_reason", "check not built yet in this round (planned, see DESIGN.md section 8); nothing is claimed for it")})
man = {
    "version": 1,
    "setup_cmd": "./setup.sh",
    "hooks": {
        "guard": "verif (Go build tag)",
        "enable": "go build -tags verif (the driver ./check always passes it; shim files zz_verif_*.go in /repo carry //go:build verif and only add exported forwarders)",
        "baseline_off_cmd": "cd /repo && go test -mod=mod -vet=off -count=1 -timeout 25m ./...",
        "source_commits": hooks,
        "add_only": True,
    },
    "engines": [{"name": "harness", "path": "/verif/harness", "serves_properties": [c["property_id"] for c in checks],
                 "kind_free_text": "Go harness (one main per property) built against /repo's working tree: workload generators + reference-model oracles + monitors (panic capture, purity snapshots, canonicity, guard pages, race detector, porcupine histories); python driver ./check runs stages as watched child processes and merges evidence"}],
    "checks": checks,
    "notes": "exit 0 held / 1 VIOLATION / 2 INCONCLUSIVE (never folded into the others). Known findings: /verif/KNOWN_FINDINGS.txt.",
    "not_applicable": na,
}
json.dump(man, open(os.path.join(V, "MANIFEST.json"), "w"), indent=1)
print("claimed:", [c["property_id"] for c in checks], "not claimed:", len(na))
